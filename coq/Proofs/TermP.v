(* C01, termination half on the model: no decoding routine runs out of the
   fuel the model's loops are given - every loop iteration of bcder consumes
   input or closes an open value, so fuel proportional to the input suffices.
   Tm n m dec: from a fault-free state with at most n octets left, m does not
   end in NoFuel, and a result a leaves at least (dec a) octets fewer. *)
From Coq Require Import Lia ZifyBool ZifyN ZifyNat.
Require Import BV.Model.Base BV.Model.SrcB BV.Model.Length BV.Model.Tag BV.Model.Content.
Require Import BV.Proofs.Bits BV.Proofs.SrcBP BV.Proofs.TagP BV.Proofs.ContentP BV.Proofs.WinP BV.Proofs.GrammarP.
Arguments N.add : simpl never. Arguments N.sub : simpl never.
Arguments N.ltb : simpl never. Arguments N.leb : simpl never. Arguments N.eqb : simpl never.
Arguments N.min : simpl never.

Definition Tm {A} (n : N) (m : M A) (dec : A -> N) : Prop :=
  forall s, nf s -> len (rem s) <= n ->
    match m s with
    | (Ok a, s') => nf s' /\ len (rem s') + dec a <= len (rem s)
    | (NoFuel, _) => False
    | _ => True
    end.

Lemma Tm_bind {A B} n (m : M A) d1 k1 (f : A -> M B) d2 :
  (forall a, k1 <= d1 a) -> Tm n m d1 -> (k1 <= n -> forall a, Tm (n - k1) (f a) d2) ->
  Tm n (bind m f) (fun b => k1 + d2 b).
Proof.
  intros Hk Hm Hf s Hn Hl. specialize (Hm s Hn Hl). unfold bind.
  destruct (m s) as [[a| | | |] s1]; auto. destruct Hm as [Hn1 Hd]. specialize (Hk a).
  specialize (Hf ltac:(lia) a s1 Hn1 ltac:(lia)).
  destruct (f a s1) as [[b| | | |] s2]; auto. destruct Hf as [Hn2 Hd2]. split; [exact Hn2|lia].
Qed.
Lemma Tm_bind0 {A B} n (m : M A) d1 (f : A -> M B) d2 :
  Tm n m d1 -> (forall a, Tm n (f a) d2) -> Tm n (bind m f) d2.
Proof.
  intros Hm Hf s Hn Hl. specialize (Hm s Hn Hl). unfold bind.
  destruct (m s) as [[a| | | |] s1]; auto. destruct Hm as [Hn1 Hd].
  specialize (Hf a s1 Hn1 ltac:(lia)).
  destruct (f a s1) as [[b| | | |] s2]; auto. destruct Hf as [Hn2 Hd2]. split; [exact Hn2|lia].
Qed.
Lemma Tm_weaken {A} n n' (m : M A) d d' : n' <= n -> (forall a, d' a <= d a) -> Tm n m d -> Tm n' m d'.
Proof.
  intros Hn Hd H s Hs Hl. specialize (H s Hs ltac:(lia)).
  destruct (m s) as [[a| | | |] s1]; auto. destruct H as [H1 H2]. specialize (Hd a). split; [exact H1|lia].
Qed.
Lemma Tm_ret {A} n (a : A) d : d a = 0 -> Tm n (ret a) d.
Proof. intros Hd s Hn Hl. cbn. rewrite Hd. split; [exact Hn|lia]. Qed.
Lemma Tm_ret0 {A} n (a : A) : Tm n (ret a) (fun _ => 0).
Proof. apply Tm_ret. reflexivity. Qed.
Lemma Tm_cerr {A} n (d : A -> N) : Tm n cerr d. Proof. intros s _ _. exact I. Qed.
Lemma Tm_panic {A} n (d : A -> N) : Tm n panic d. Proof. intros s _ _. exact I. Qed.
Lemma Tm_if {A} n (c : bool) (m1 m2 : M A) d : Tm n m1 d -> Tm n m2 d -> Tm n (if c then m1 else m2) d.
Proof. destruct c; auto. Qed.

Ltac nfs := match goal with H : nf ?s |- _ => destruct s as [d0 l0 f0]; unfold nf in H; cbn in H; subst f0 end.

Lemma Tm_tick n : Tm n tick (fun _ => 0).
Proof. intros s Hn Hl. nfs. cbn. split; [reflexivity|lia]. Qed.
Lemma Tm_take_u8 n : Tm n take_u8 (fun _ => 1).
Proof.
  intros s Hn Hl. nfs. unfold take_u8, bind, tick. cbn [flt rem lim] in *.
  destruct l0 as [[|p]|], d0 as [|x d]; cbv beta iota; try exact I; cbn [rem]; rewrite len_cons; split; try reflexivity; lia.
Qed.
Lemma Tm_take_opt_u8 n : Tm n take_opt_u8 (fun o => match o with Some _ => 1 | None => 0 end).
Proof.
  intros s Hn Hl. nfs. unfold take_opt_u8, bind, tick. cbn [flt rem lim] in *.
  destruct l0 as [[|p]|], d0 as [|x d]; cbv beta iota; cbn [rem]; rewrite ?len_cons; split; try reflexivity; lia.
Qed.
Lemma Tm_get_lim n : Tm n get_lim (fun _ => 0).
Proof. intros s Hn Hl. cbn. split; [exact Hn|lia]. Qed.
Lemma Tm_set_limit n l : Tm n (set_limit l) (fun _ => 0).
Proof. intros s Hn Hl. nfs. cbn. split; [reflexivity|lia]. Qed.
Lemma Tm_need n k : Tm n (need k) (fun _ => 0).
Proof.
  intros s Hn Hl. nfs. unfold need, bind, tick. cbn [flt]. destruct (avail _ <? k); cbn; auto. split; [reflexivity|lia].
Qed.
Lemma Tm_advance n k : Tm n (advance k) (fun _ => 0).
Proof.
  intros s Hn Hl. nfs. unfold advance. cbn [rem lim flt] in *.
  destruct (len d0 <? k); [exact I|]. destruct l0 as [x|]; [destruct (x <? k); [exact I|]|];
    cbn [rem]; rewrite len_skipN; split; try reflexivity; lia.
Qed.
Lemma Tm_src_exhausted n : Tm n src_exhausted (fun _ => 0).
Proof.
  intros s Hn Hl. nfs. unfold src_exhausted, bind, tick. cbn [flt rem lim] in *.
  destruct l0 as [[|p]|]; cbn; auto; [split; [reflexivity|lia]|]. destruct d0; cbn; auto. split; [reflexivity|lia].
Qed.
Lemma Tm_take_all n : Tm n take_all_lim (fun _ => 0).
Proof.
  unfold take_all_lim. intros s Hn Hl. destruct (lim s) as [l|] eqn:E; [|exact I].
  assert (H : Tm n (need l ;;; s' <- get ;; advance l ;;; ret (firstN l (rem s'))) (fun _ => 0)).
  { eapply Tm_bind0; [apply Tm_need|]. intros _. intros s1 Hn1 Hl1. unfold bind at 1. unfold get. cbv beta iota.
    pose proof (Tm_advance n l s1 Hn1 Hl1) as H. unfold bind. destruct (advance l s1) as [[[]| | | |] s2]; auto. }
  apply (H s Hn Hl).
Qed.
Lemma Tm_skip_all n : Tm n skip_all_lim (fun _ => 0).
Proof.
  unfold skip_all_lim. intros s Hn Hl. destruct (lim s) as [l|] eqn:E; [|exact I].
  apply (Tm_bind0 n (need l) (fun _ => 0) (fun _ => advance l) (fun _ => 0) (Tm_need n l) (fun _ => Tm_advance n l) s Hn Hl).
Qed.

Ltac tm_auto n :=
  repeat first
    [ apply Tm_cerr | apply Tm_ret0 | apply Tm_if
    | eapply Tm_bind0; [apply (Tm_take_u8 n)|intros ?] ].

Lemma Tm_length n m : Tm n (length_take_from m) (fun _ => 1).
Proof.
  unfold length_take_from.
  apply Tm_weaken with (n := n) (d := fun _ => 1 + 0); [lia|intro; lia|].
  eapply Tm_bind with (d1 := fun _ => 1); [intro; lia|apply Tm_take_u8|]. intros Hle b. tm_auto (n - 1).
Qed.
(* routines without loops never report NoFuel, whatever the state *)
Definition NoNF {A} (m : M A) : Prop := forall s, fst (m s) <> NoFuel.
Lemma NoNF_bind {A B} (m : M A) (f : A -> M B) : NoNF m -> (forall a, NoNF (f a)) -> NoNF (bind m f).
Proof. intros Hm Hf s. unfold bind. specialize (Hm s). destruct (m s) as [[a| | | |] s1]; cbn [fst] in *; try discriminate; [apply Hf|congruence]. Qed.
Lemma NoNF_ret {A} (a : A) : NoNF (ret a). Proof. intro s. discriminate. Qed.
Lemma NoNF_cerr {A} : NoNF (@cerr A). Proof. intro s. discriminate. Qed.
Lemma NoNF_if {A} (c : bool) (m1 m2 : M A) : NoNF m1 -> NoNF m2 -> NoNF (if c then m1 else m2).
Proof. destruct c; auto. Qed.
Lemma NoNF_tick : NoNF tick.
Proof. intro s. unfold tick. destruct (flt s) as [[|p]|]; discriminate. Qed.
Lemma NoNF_take_u8 : NoNF take_u8.
Proof.
  unfold take_u8. apply NoNF_bind; [apply NoNF_tick|]. intros _ s.
  destruct (lim s) as [[|p]|], (rem s); discriminate.
Qed.
Lemma NoNF_take_opt_u8 : NoNF take_opt_u8.
Proof.
  unfold take_opt_u8. apply NoNF_bind; [apply NoNF_tick|]. intros _ s.
  destruct (lim s) as [[|p]|], (rem s); discriminate.
Qed.
Ltac nonf_auto :=
  repeat first
    [ apply NoNF_cerr | apply NoNF_ret | apply NoNF_if
    | apply NoNF_bind; [apply NoNF_take_u8|intros ?]
    | apply NoNF_bind; [apply NoNF_take_opt_u8|intros ?] ].
Lemma NoNF_tag_opt : NoNF tag_take_opt_from.
Proof. unfold tag_take_opt_from. apply NoNF_bind; [apply NoNF_take_opt_u8|]. intros [b|]; nonf_auto. Qed.
Lemma NoNF_tag : NoNF tag_take_from.
Proof. unfold tag_take_from. apply NoNF_bind; [apply NoNF_tag_opt|]. intros [r|]; nonf_auto. Qed.

Lemma Tm_tag n : Tm n tag_take_from (fun _ => 1).
Proof.
  intros s Hn Hl.
  assert (H : Tm n (b <- take_u8 ;; tag_rest b) (fun _ => 1)).
  { apply Tm_weaken with (n := n) (d := fun _ => 1 + 0); [lia|intro; lia|].
    eapply Tm_bind with (d1 := fun _ => 1); [intro; lia|apply Tm_take_u8|]. intros. unfold tag_rest. tm_auto (n - 1). }
  specialize (H s Hn Hl). pose proof (NoNF_tag s) as Hnf.
  destruct (tag_take_from s) as [[a| | | |] s1] eqn:E; auto.
  rewrite (tag_take_from_alt _ _ _ E) in H. exact H.
Qed.

Definition dopt {A} (o : option A) : N := match o with Some _ => 1 | None => 0 end.

Lemma Tm_bind_opt {A B} n (m : M (option A)) (f : option A -> M B) d2 d' :
  Tm n m dopt -> Tm n (f None) d2 -> (1 <= n -> forall a, Tm (n - 1) (f (Some a)) d') ->
  (forall b, d2 b <= 1 + d' b) -> Tm n (bind m f) d2.
Proof.
  intros Hm Hn0 Hs Hd s Hn Hl. specialize (Hm s Hn Hl). unfold bind.
  destruct (m s) as [[[a|]| | | |] s1]; auto; destruct Hm as [Hn1 Hd1]; cbn [dopt] in Hd1.
  - specialize (Hs ltac:(lia) a s1 Hn1 ltac:(lia)). destruct (f (Some a) s1) as [[b| | | |] s2]; auto.
    destruct Hs as [Hn2 Hd2]. specialize (Hd b). split; [exact Hn2|lia].
  - specialize (Hn0 s1 Hn1 ltac:(lia)). destruct (f None s1) as [[b| | | |] s2]; auto.
    destruct Hn0 as [Hn2 Hd2]. split; [exact Hn2|lia].
Qed.

Lemma Tm_tag_opt n : Tm n tag_take_opt_from dopt.
Proof.
  intros s Hn Hl. pose proof (NoNF_tag_opt s) as Hnf.
  destruct (tag_take_opt_from s) as [[[tk|]| | | |] s1] eqn:E; auto.
  - pose proof (Tm_tag n s Hn Hl) as H. rewrite (tag_opt_some_is_take _ _ _ E) in H. exact H.
  - rewrite (tag_take_opt_from_none _ _ Hn E). split; [exact Hn|cbn; lia].
Qed.

Lemma tag_len_pos t : 1 <= tag_encoded_len t.
Proof.
  destruct t as [[[a b] c] d]. unfold tag_encoded_len.
  destruct (negb (N.land 31 a =? 31)); [lia|]. destruct (N.land 128 b =? 0); [lia|]. destruct (N.land 128 c =? 0); lia.
Qed.
Lemma Tm_tag_if n e : Tm n (tag_take_from_if e) dopt.
Proof.
  intros s Hn Hl. rewrite (tag_take_from_if_peek_gen e s Hn).
  destruct (peek_tag (visible s)) as [[[[t c] k]|]|] eqn:P; [|exact I|split; [exact Hn|cbn; lia]].
  destruct (tag_eqb t e); [|split; [exact Hn|cbn; lia]].
  destruct (peek_tag_len _ t c k P) as (Hk & Hle & _). pose proof (visible_len s) as [V1 _].
  pose proof (tag_len_pos t). split; [reflexivity|]. cbn [rem dopt]. rewrite len_skipN. lia.
Qed.

Lemma Tm_is_exhausted n c : Tm n (is_exhausted c) (fun _ => 0).
Proof.
  intros s Hn Hl. unfold is_exhausted. destruct (cst c); cbn; try (split; [exact Hn|lia]).
  unfold bind, get_lim, ret, panic. destruct (lim s); [split; [exact Hn|cbn; lia]|exact I].
Qed.
Lemma Tm_cons_exhausted n c : Tm n (cons_exhausted c) (fun _ => 0).
Proof.
  unfold cons_exhausted. destruct (cst c); try apply Tm_ret0; [apply Tm_src_exhausted|].
  eapply Tm_bind0; [apply Tm_tag|]. intros [t k]. apply Tm_if; [apply Tm_cerr|].
  eapply Tm_bind0; [apply Tm_length|]. intro l. apply Tm_if; [apply Tm_ret0|apply Tm_cerr].
Qed.
Lemma Tm_content_exhausted n ct : Tm n (content_exhausted ct) (fun _ => 0).
Proof. destruct ct; [apply Tm_src_exhausted|apply Tm_cons_exhausted]. Qed.

Definition dsome {A B} (rc : option A * B) : N := match fst rc with Some _ => 2 | None => 0 end.

Theorem Tm_process_next_value {T} n c exp (op : tag -> content -> M (T * content)) :
  (2 <= n -> forall t ct, Tm (n - 2) (op t ct) (fun _ => 0)) ->
  Tm n (process_next_value c exp op) dsome.
Proof.
  intros Hop. unfold process_next_value.
  eapply Tm_bind0; [apply Tm_is_exhausted|]. intro ex.
  apply Tm_if; [apply Tm_ret; reflexivity|].
  eapply Tm_bind_opt with (d' := fun rc : option T * cons => match fst rc with Some _ => 1 | None => 0 end).
  - destruct exp as [e|].
    + intros s Hn Hl. pose proof (Tm_tag_if n e s Hn Hl) as H. unfold bind.
      destruct (tag_take_from_if e s) as [[[k|]| | | |] s1]; auto.
    + apply Tm_if; [apply Tm_tag_opt|].
      intros s Hn Hl. pose proof (Tm_tag n s Hn Hl) as H. unfold bind.
      destruct (tag_take_from s) as [[tk| | | |] s1]; auto.
  - apply Tm_ret. reflexivity.
  - intros H1 [t k].
    apply Tm_weaken with (n := n - 1) (d := fun rc : option T * cons => 1 + 0); [lia|intros [[x|] y]; cbn; lia|].
    eapply Tm_bind with (d1 := fun _ => 1); [intro; lia|apply Tm_length|]. intros H2 l.
    replace (n - 1 - 1) with (n - 2) by lia. specialize (Hop ltac:(lia)).
    apply Tm_if.
    { destruct (cst c); try apply Tm_cerr. apply Tm_if; [apply Tm_cerr|]. apply Tm_if; [apply Tm_cerr|apply Tm_ret0]. }
    destruct l as [len_|].
    + eapply Tm_bind0; [apply Tm_get_lim|]. intro old.
      eapply Tm_bind0 with (d1 := fun _ => 0).
      { destruct old as [li|]; [apply Tm_if; [apply Tm_cerr|apply Tm_ret0]|apply Tm_ret0]. }
      intros _. eapply Tm_bind0; [apply Tm_set_limit|]. intros _.
      eapply Tm_bind0 with (d1 := fun _ => 0); [apply Tm_if; [apply Tm_cerr|apply Tm_ret0]|]. intros _. cbv zeta.
      eapply Tm_bind0; [apply Hop|]. intros [r ct'].
      eapply Tm_bind0; [apply Tm_content_exhausted|]. intros _.
      eapply Tm_bind0; [apply Tm_set_limit|]. intros _. apply Tm_ret0.
    + apply Tm_if; [apply Tm_cerr|].
      eapply Tm_bind0; [apply Hop|]. intros [r ct'].
      eapply Tm_bind0; [apply Tm_content_exhausted|]. intros _. apply Tm_ret0.
  - intros [[x|] y]; cbn; lia.
Qed.

(* the generic reader with fuel beyond the octets left never runs out *)
Theorem Tm_read_all f : forall c n, (N.to_nat n < f)%nat -> Tm n (read_all f c) (fun _ => 0).
Proof.
  induction f as [|f IH]; intros c n Hf; [lia|]. rewrite read_all_S.
  intros s Hn Hl.
  assert (Hpnv : Tm n (process_next_value c None (rd f)) dsome).
  { apply Tm_process_next_value. intros H2 t [m|c']; cbn [rd].
    - eapply Tm_bind0; [apply Tm_take_all|]. intro. apply Tm_ret0.
    - eapply Tm_bind0; [apply IH; lia|]. intros [kids c'']. apply Tm_ret0. }
  specialize (Hpnv s Hn Hl). unfold bind.
  destruct (process_next_value c None (rd f) s) as [[[o c1]| | | |] s1]; auto.
  destruct Hpnv as [Hn1 Hd]. destruct o as [v|]; cbn [dsome fst] in Hd.
  - assert (Hl1 : len (rem s1) <= n - 2) by lia.
    pose proof (IH c1 (n - 2) ltac:(lia) s1 Hn1 Hl1) as H.
    destruct (read_all f c1 s1) as [[[vs c2]| | | |] s2]; auto. destruct H as [Hn2 Hd2]. cbn. split; [exact Hn2|lia].
  - cbn. split; [exact Hn1|lia].
Qed.

(* ---- skipping ---- *)
Lemma skip_after_S' f c fl st tr :
  skip_after (S f) c fl st tr =
  (o <- skip_unwind (S (length st)) st ;;
   match o with None => ret (SkSome, c, tr) | Some st' => skip_loop f c fl st' tr end).
Proof. reflexivity. Qed.
Lemma Tm_unwind : forall st g n, (length st < g)%nat -> Tm n (skip_unwind g st) (fun _ => 0).
Proof.
  induction st as [|top st IH]; intros g n Hg; destruct g as [|g]; try lia; cbn [skip_unwind].
  - apply Tm_ret0.
  - eapply Tm_bind0; [apply Tm_get_lim|]. intros [[|p]|]; try apply Tm_ret0.
    destruct top as [lo|]; [|apply Tm_cerr].
    eapply Tm_bind0; [apply Tm_set_limit|]. intros _. apply IH. cbn [length] in Hg. lia.
Qed.

Definition dskip (r : skip_out * cons * trace) : N := match fst (fst r) with SkSome => 2 | SkNone => 0 end.

Theorem Tm_skip_loop f : forall c fl st tr n,
  ((N.to_nat n + 2 <= f)%nat -> Tm n (skip_loop f c fl st tr) dskip) /\
  ((N.to_nat n + 3 <= f)%nat -> Tm n (skip_after f c fl st tr) (fun _ => 0)).
Proof.
  induction f as [|f IH]; intros c fl st tr n; [split; intro; lia|].
  split; intro Hf.
  - cbn [skip_loop].
    eapply Tm_bind_opt with (d' := fun r : skip_out * cons * trace => 1).
    + destruct (match st with [] => cstate_eqb (cst c) Unbounded | _ :: _ => false end); [apply Tm_tag_opt|].
      intros s Hn Hl. pose proof (Tm_tag n s Hn Hl) as H. unfold bind.
      destruct (tag_take_from s) as [[tk| | | |] s1]; auto.
    + apply Tm_ret. reflexivity.
    + intros H1 [t k].
      apply Tm_weaken with (n := n - 1) (d := fun r : skip_out * cons * trace => 1 + 0); [lia|intro; lia|].
      eapply Tm_bind with (d1 := fun _ => 1); [intro; lia|apply Tm_length|]. intros H2 l.
      replace (n - 1 - 1) with (n - 2) by lia.
      assert (HA : forall st' tr', Tm (n - 2) (skip_after f c fl st' tr') (fun _ => 0))
        by (intros; apply (proj2 (IH c fl st' tr' (n - 2))); lia).
      assert (HL : forall st' tr', Tm (n - 2) (skip_loop f c fl st' tr') (fun _ => 0)).
      { intros. eapply Tm_weaken; [reflexivity| |apply (proj1 (IH c fl st' tr' (n - 2))); lia]. intro; lia. }
      destruct (negb k).
      * apply Tm_if.
        -- apply Tm_if; [apply Tm_cerr|]. destruct st as [|[x|] st']; [destruct (cst c); try apply Tm_cerr; apply Tm_ret0|apply Tm_cerr|apply HA].
        -- destruct l as [n0|]; [|apply Tm_cerr]. apply Tm_if; [apply Tm_cerr|].
           eapply Tm_bind0; [apply Tm_need|]. intros _. eapply Tm_bind0; [apply Tm_advance|]. intros _. apply HA.
      * apply Tm_if; [apply Tm_cerr|]. destruct l as [n0|].
        -- apply Tm_if; [apply Tm_cerr|]. apply Tm_if; [apply Tm_cerr|].
           eapply Tm_bind0; [apply Tm_get_lim|]. intros [li|].
           ++ apply Tm_if; [apply Tm_cerr|]. eapply Tm_bind0; [apply Tm_set_limit|]. intros _. apply HA.
           ++ eapply Tm_bind0; [apply Tm_set_limit|]. intros _. apply HA.
        -- apply Tm_if; [apply Tm_cerr|]. apply Tm_if; [apply Tm_cerr|]. apply HL.
    + intros [[o c'] tr']. unfold dskip. cbn. destruct o; lia.
  - rewrite skip_after_S'. eapply Tm_bind0; [apply Tm_unwind; lia|].
    intros [st'|]; [|apply Tm_ret0].
    eapply Tm_weaken; [reflexivity| |apply (proj1 (IH c fl st' tr n)); lia]. intro; lia.
Qed.

Lemma Tm_skip_opt f c fl n : (N.to_nat n + 2 <= f)%nat -> Tm n (skip_opt f c fl) dskip.
Proof.
  intro Hf. unfold skip_opt. eapply Tm_bind0; [apply Tm_is_exhausted|]. intro ex.
  apply Tm_if; [apply Tm_ret; reflexivity|apply (proj1 (Tm_skip_loop f c fl [] [] n) Hf)].
Qed.
Definition dsk1 (r : skip_out * cons) : N := match fst r with SkSome => 2 | SkNone => 0 end.
Lemma Tm_skip_one f c n : (N.to_nat n + 2 <= f)%nat -> Tm n (skip_one f c) dsk1.
Proof.
  intro Hf. unfold skip_one. intros s Hn Hl. pose proof (Tm_skip_opt f c accept_all n Hf s Hn Hl) as H. unfold bind.
  destruct (skip_opt f c accept_all s) as [[[[o c'] tr]| | | |] s1]; auto.
Qed.
Lemma Tm_skip_mand f c fl n : (N.to_nat n + 2 <= f)%nat -> Tm n (skip_mand f c fl) (fun _ => 0).
Proof.
  intro Hf. unfold skip_mand. intros s Hn Hl. pose proof (Tm_skip_opt f c fl n Hf s Hn Hl) as H. unfold bind.
  destruct (skip_opt f c fl s) as [[[[o c'] tr]| | | |] s1]; auto. destruct o; cbn; auto.
  destruct H as [H1 H2]. split; [exact H1|lia].
Qed.
Lemma Tm_skip_all_loop f : forall c k n, (N.to_nat n + 2 <= f)%nat -> Tm n (skip_all f c k) (fun _ => 0).
Proof.
  induction f as [|f IH]; intros c k n Hf; [lia|].
  change (skip_all (S f) c k) with (r <- skip_one (S f) c;; let '(o, c') := r in
            match o with SkNone => ret (k, c') | SkSome => skip_all f c' (k + 1) end).
  intros s Hn Hl. pose proof (Tm_skip_one (S f) c n Hf s Hn Hl) as H. unfold bind.
  destruct (skip_one (S f) c s) as [[[o c']| | | |] s1]; auto. destruct H as [Hn1 Hd].
  destruct o; cbn [dsk1 fst] in Hd.
  - cbn. split; [exact Hn1|lia].
  - pose proof (IH c' (k + 1) (n - 2) ltac:(lia) s1 Hn1 ltac:(lia)) as H.
    destruct (skip_all f c' (k + 1) s1) as [[[k' c'']| | | |] s2]; auto. destruct H. split; [assumption|lia].
Qed.

(* ---- capture ---- *)
Lemma Tm_capture {T} n (c : cons) (op : cons -> M (T * cons)) :
  Tm n (op c) (fun _ => 0) -> Tm n (capture c op) (fun _ => 0).
Proof.
  intros Hop s Hn Hl. specialize (Hop s Hn Hl). unfold capture. unfold bind at 1. unfold get at 1. cbv beta iota.
  unfold bind at 1. destruct (op c s) as [[[r c1]| | | |] s1]; auto. destruct Hop as [Hn1 Hd].
  unfold bind at 1. unfold get at 1. cbv beta iota. unfold bind, put, ret, panic.
  destruct (lim s) as [l|]; [destruct (l <? _)|]; cbn [rem]; auto; split; try exact Hn1; lia.
Qed.

(* ---- typed leaves and scripts: no loops ---- *)
Require Import BV.Model.Twos BV.Model.Int BV.Model.BitStr BV.Model.Oid BV.Model.Prog.

Lemma Tm_remaining n : Tm n remaining (fun _ => 0).
Proof. intros s Hn Hl. unfold remaining. destruct (lim s); [split; [exact Hn|lia]|exact I]. Qed.
Lemma Tm_state_fn {A} n (g : src -> res A) : (forall s, g s <> NoFuel) -> Tm n (fun s => (g s, s)) (fun _ => 0).
Proof. intros Hg s Hn Hl. specialize (Hg s). destruct (g s); try congruence; auto. split; [exact Hn|lia]. Qed.
Lemma Tm_int_check_head n : Tm n int_check_head (fun _ => 0).
Proof.
  unfold int_check_head. eapply Tm_bind0; [apply Tm_tick|]. intros _ s Hn Hl.
  destruct (visible s) as [|b0 [|b1 v]]; auto; [split; [exact Hn|lia]|].
  destruct (((b0 =? 0) && negb (bit8 b1)) || ((b0 =? 255) && bit8 b1)); auto. split; [exact Hn|lia].
Qed.
Lemma Tm_uns_check_head n : Tm n uns_check_head (fun _ => 0).
Proof.
  unfold uns_check_head. eapply Tm_bind0; [apply Tm_int_check_head|]. intros _ s Hn Hl.
  destruct (visible s) as [|b0 v]; auto. destruct (bit8 b0); auto. split; [exact Hn|lia].
Qed.
Lemma Tm_slice_all n : Tm n slice_all_lim (fun _ => 0).
Proof.
  unfold slice_all_lim. intros s Hn Hl. destruct (lim s) as [l|] eqn:E; [|exact I].
  assert (H : Tm n (need l ;;; s' <- get ;; ret (firstN l (rem s'))) (fun _ => 0)).
  { eapply Tm_bind0; [apply Tm_need|]. intros _ s1 Hn1 Hl1. cbn. split; [exact Hn1|lia]. }
  apply (H s Hn Hl).
Qed.
Lemma Tm_with_slice_all {T} n (op : list N -> res T) : (forall c, op c <> NoFuel) -> Tm n (with_slice_all op) (fun _ => 0).
Proof.
  intro Hop. unfold with_slice_all. eapply Tm_bind0; [apply Tm_slice_all|]. intro c. specialize (Hop c).
  destruct (op c); try congruence.
  - eapply Tm_bind0; [apply Tm_advance|]. intro. apply Tm_ret0.
  - apply Tm_cerr.
  - intros s _ _. exact I.
  - apply Tm_panic.
Qed.

Ltac tm0 n :=
  repeat first
    [ apply Tm_cerr | apply Tm_ret0 | apply Tm_if
    | eapply Tm_bind0; [apply (Tm_take_u8 n)|intros ?]
    | eapply Tm_bind0; [apply (Tm_remaining n)|intros ?]
    | eapply Tm_bind0; [apply (Tm_take_all n)|intros ?] ].

Lemma slice_signed_nn w c : slice_signed w c <> NoFuel.
Proof. unfold slice_signed. destruct (N.of_nat w <? len c); [discriminate|]. destruct c; discriminate. Qed.
Lemma slice_unsigned_nn w c : slice_unsigned w c <> NoFuel.
Proof.
  unfold slice_unsigned. destruct c as [|b0 r]; [discriminate|]. destruct (bit8 b0); [discriminate|].
  destruct (len (if b0 =? 0 then r else b0 :: r) =? 0); [discriminate|].
  destruct (N.of_nat w <? len (if b0 =? 0 then r else b0 :: r)); discriminate.
Qed.

Theorem Tm_int_accessor n ty : Tm n (int_accessor ty) (fun _ => 0).
Proof.
  assert (Hs : forall w, Tm n (signed_from_primitive w) (fun _ => 0)).
  { intro w. unfold signed_from_primitive. eapply Tm_bind0; [apply Tm_int_check_head|]. intro.
    apply Tm_with_slice_all, slice_signed_nn. }
  assert (Hu : forall w, Tm n (unsigned_from_primitive w) (fun _ => 0)).
  { intro w. unfold unsigned_from_primitive. eapply Tm_bind0; [apply Tm_uns_check_head|]. intro.
    apply Tm_with_slice_all, slice_unsigned_nn. }
  unfold int_accessor.
  destruct ty as [|p]; [|destruct p as [p|p|]; [destruct p as [p|p|]; [destruct p as [p|p|]| destruct p as [p|p|]|]
                                              |destruct p as [p|p|]; [destruct p as [p|p|]| destruct p as [p|p|]|]|]];
    try apply Hs; try apply Hu.
  all: try (destruct p; apply Hu).
  all: try solve [unfold u8_from_primitive, u16_from_primitive; eapply Tm_bind0; [apply Tm_uns_check_head|]; intro; tm0 n].
  unfold i8_from_primitive. eapply Tm_bind0; [apply Tm_int_check_head|]. intro. tm0 n.
Qed.

Lemma Tm_integer_from_primitive n : Tm n integer_from_primitive (fun _ => 0).
Proof. unfold integer_from_primitive. eapply Tm_bind0; [apply Tm_take_all|]. intros [|b0 [|b1 r]]; tm0 n. Qed.

Theorem Tm_typed_prim n ty m : Tm n (typed_prim ty m) (fun _ => 0).
Proof.
  assert (Hdef : Tm n (v <- int_accessor ty;; ret [v]) (fun _ => 0)).
  { eapply Tm_bind0; [apply Tm_int_accessor|]. intro. apply Tm_ret0. }
  unfold typed_prim.
  destruct ty as [|p]; [exact Hdef|].
  do 5 (try destruct p as [p|p|]); try exact Hdef.
  all: (eapply Tm_bind0 with (d1 := fun _ => 0); [|intro; apply Tm_ret0]).
  all: try solve [unfold bit_skip_prim; tm0 n; apply Tm_skip_all].
  all: try solve [unfold bit_from_prim; tm0 n].
  all: try solve [unfold to_null; tm0 n].
  all: try solve [unfold to_bool; tm0 n].
  all: try solve [apply Tm_integer_from_primitive].
  all: try solve [unfold unsigned_int_from_primitive; eapply Tm_bind0; [apply Tm_uns_check_head|]; intro; apply Tm_integer_from_primitive].
  - unfold oid_skip_prim. apply Tm_with_slice_all. intro c. unfold oid_check_content.
    destruct (rev c) as [|x ?]; [discriminate|]. destruct (negb (N.land x 128 =? 0)); discriminate.
  - unfold oid_from_prim. eapply Tm_bind0; [apply Tm_take_all|]. intro c. destruct (oid_check_content c); tm0 n.
Qed.

Lemma Tm_catch_cerr {A} n (m : M A) d e k :
  Tm n m (fun _ => 0) -> (forall s s', nf s -> m s = (CErr, s') -> s' = s) ->
  Tm n (catch_cerr m d e k) (fun _ => 0).
Proof.
  intros Hm Hc s Hn Hl. specialize (Hm s Hn Hl). unfold catch_cerr.
  destruct (m s) as [[a| | | |] s1] eqn:E; auto.
  rewrite (Hc s s1 Hn E). split; [exact Hn|lia].
Qed.

Require Import BV.Proofs.DeltaP.

Lemma Tm_run_sop n o g : Tm n (run_sop o g) (fun _ => 0).
Proof.
  destruct o as [rn| |ba be|ak|sn| | | | | | | ]; cbn [run_sop].
  - eapply Tm_bind0; [apply Tm_tick|]. intros _ s Hn Hl. cbn. split; [exact Hn|lia].
  - intros s Hn Hl. cbn. split; [exact Hn|lia].
  - intros s Hn Hl. cbn. split; [exact Hn|lia].
  - eapply Tm_bind0; [apply Tm_advance|]. intro. apply Tm_ret0.
  - eapply Tm_bind0; [apply Tm_tick|]. intros _ s Hn Hl. unfold bind, get_avail.
    pose proof (Tm_advance n (N.min (avail s) sn) s Hn Hl) as H.
    destruct (advance (N.min (avail s) sn) s) as [[[]| | | |] s1]; auto.
  - eapply Tm_bind0; [apply Tm_catch_cerr; [eapply Tm_weaken; [reflexivity| |apply (Tm_take_u8 n)]; intro; cbv beta; lia|apply cerr_state_take_u8]|]. intro. apply Tm_ret0.
  - eapply Tm_bind0; [apply Tm_take_opt_u8|]. intro. apply Tm_ret0.
  - eapply Tm_bind0; [apply Tm_catch_cerr; [apply Tm_take_all|apply cerr_state_take_all]|]. intro. apply Tm_ret0.
  - eapply Tm_bind0; [apply Tm_catch_cerr; [apply Tm_skip_all|apply cerr_state_skip_all]|]. intro. apply Tm_ret0.
  - eapply Tm_bind0; [apply Tm_catch_cerr; [apply Tm_slice_all|apply cerr_state_slice_all]|]. intro. apply Tm_ret0.
  - eapply Tm_bind0; [apply Tm_catch_cerr; [apply Tm_with_slice_all; intro; discriminate|apply cerr_state_with_slice_all_id]|]. intro. apply Tm_ret0.
  - eapply Tm_bind0; [apply Tm_remaining|]. intro. apply Tm_ret0.
Qed.
Lemma Tm_run_script n sc : forall g lg, Tm n (run_script sc g lg) (fun _ => 0).
Proof.
  induction sc as [|o r IH]; intros g lg; cbn [run_script]; [apply Tm_ret0|].
  eapply Tm_bind0; [apply Tm_run_sop|]. intros [g' l]. apply IH.
Qed.

(* ---- every decoding program ---- *)
Fixpoint psize (p : prog) : nat :=
  match p with
  | PTake _ _ _ b => S (bsize b)
  | PCapture qs => S ((fix go (l : list prog) : nat := match l with [] => 0%nat | x :: r => (psize x + go r)%nat end) qs)
  | _ => 1%nat
  end
with bsize (b : body) : nat :=
  match b with
  | BProg ps => S ((fix go (l : list prog) : nat := match l with [] => 0%nat | x :: r => (psize x + go r)%nat end) ps)
  | BSetModeThen _ b' => S (bsize b')
  | _ => 1%nat
  end.
Fixpoint psizes (l : list prog) : nat := match l with [] => 0%nat | x :: r => (psize x + psizes r)%nat end.
Lemma psize_capture qs : psize (PCapture qs) = S (psizes qs). Proof. reflexivity. Qed.
Lemma bsize_prog ps : bsize (BProg ps) = S (psizes ps). Proof. reflexivity. Qed.
Lemma psize_pos p : (1 <= psize p)%nat. Proof. destruct p; cbn [psize]; lia. Qed.

Theorem Tm_exec fuel : forall n,
  (forall ps c lg, (psizes ps + N.to_nat n + 3 <= fuel)%nat -> Tm n (exec fuel ps c lg) (fun _ => 0)) /\
  (forall bd ct, (bsize bd + N.to_nat n + 3 <= fuel)%nat -> Tm n (exec_body fuel bd ct) (fun _ => 0)).
Proof.
  induction fuel as [|f IH]; intro n; [split; intros; lia|].
  split.
  - intros ps c lg Hf. cbn [exec]. destruct ps as [|p rest]; [apply Tm_ret0|].
    cbn [psizes] in Hf. pose proof (psize_pos p) as Hp.
    eapply Tm_bind0 with (d1 := fun _ => 0); [|intros [lg' c']; apply (proj1 (IH n)); lia].
    destruct p as [opt kind ex bd|variant fk fa fb|qs| | | |m].
    + cbn [psize] in Hf. eapply Tm_bind0.
      * apply Tm_process_next_value. intros H2 t ct.
        assert (Hb : Tm (n - 2) (r <- exec_body f bd ct;; let '(l, ct') := r in
                    ret (ltag t match ct with CCons _ => true | CPrim _ => false end ++ l, ct')) (fun _ => 0)).
        { eapply Tm_bind0; [apply (proj2 (IH (n - 2))); lia|]. intros [l ct']. apply Tm_ret0. }
        destruct kind as [|[q|q|]]; try exact Hb; destruct ct; try exact Hb; try apply Tm_cerr;
          destruct q; try exact Hb; apply Tm_cerr.
      * intros [[l|] c']; [apply Tm_ret0|]. destruct opt; [apply Tm_ret0|apply Tm_cerr].
    + destruct variant as [|[q|q|]].
      * eapply Tm_bind0; [apply Tm_skip_opt; lia|]. intros [[o c'] tr]. apply Tm_ret0.
      * eapply Tm_bind0; [apply Tm_skip_all_loop; lia|]. intros [k' c']. apply Tm_ret0.
      * destruct q.
        -- eapply Tm_bind0; [apply Tm_skip_all_loop; lia|]. intros [k' c']. apply Tm_ret0.
        -- eapply Tm_bind0; [apply Tm_skip_all_loop; lia|]. intros [k' c']. apply Tm_ret0.
        -- eapply Tm_bind0; [apply Tm_skip_one; lia|]. intros [o c']. apply Tm_ret0.
      * eapply Tm_bind0; [apply Tm_skip_mand; lia|]. intros [c' tr]. apply Tm_ret0.
    + rewrite psize_capture in Hf. eapply Tm_bind0.
      * apply Tm_capture. apply (proj1 (IH n)). lia.
      * intros [[bs l] c']. apply Tm_ret0.
    + unfold capture_one. eapply Tm_bind0 with (d1 := fun _ => 0); [|intros [bs c']; apply Tm_ret0].
      eapply Tm_bind0 with (d1 := fun _ => 0); [|intros [[bs u] c']; apply Tm_ret0].
      apply Tm_capture. eapply Tm_bind0 with (d1 := fun _ => 0); [|intro; apply Tm_ret0].
      unfold mandatory. eapply Tm_bind0 with (d1 := fun _ => 0).
      * eapply Tm_bind0; [apply Tm_skip_one; lia|]. intros [o c1]. apply Tm_ret0.
      * intros [[v|] c1]; [apply Tm_ret0|apply Tm_cerr].
    + unfold capture_all. eapply Tm_bind0 with (d1 := fun _ => 0); [|intros [bs c']; apply Tm_ret0].
      eapply Tm_bind0 with (d1 := fun _ => 0); [|intros [[bs u] c']; apply Tm_ret0].
      apply Tm_capture, Tm_skip_all_loop. lia.
    + eapply Tm_bind0; [apply Tm_read_all; lia|]. intros [ts c']. apply Tm_ret0.
    + apply Tm_ret0.
  - intros bd ct Hf. cbn [exec_body].
    destruct bd as [|ps|sc| |ty|m bd']; destruct ct as [md|c]; try apply Tm_cerr; try apply Tm_ret0.
    + eapply Tm_bind0; [apply Tm_take_all|]. intro. apply Tm_ret0.
    + eapply Tm_bind0; [apply Tm_read_all; cbn [bsize] in Hf; lia|]. intros [ts c']. apply Tm_ret0.
    + rewrite bsize_prog in Hf. eapply Tm_bind0; [apply (proj1 (IH n)); lia|]. intros [l c']. apply Tm_ret0.
    + eapply Tm_bind0; [apply Tm_run_script|]. intro. apply Tm_ret0.
    + eapply Tm_bind0; [apply Tm_typed_prim|]. intro. apply Tm_ret0.
    + apply (proj2 (IH n)). cbn [bsize] in Hf. lia.
    + apply (proj2 (IH n)). cbn [bsize] in Hf. lia.
Qed.

Lemma parse_sops_len n : forall l s r, parse_sops n l = Some (s, r) -> (length r <= length l)%nat.
Proof.
  induction n as [|n IH]; intros l s r H; cbn [parse_sops] in H; [injection H as <- <-; lia|].
  repeat match type of H with
  | match ?x with _ => _ end = _ => let E := fresh "E" in destruct x eqn:E; try discriminate
  end;
  repeat match goal with E : parse_sops n _ = Some _ |- _ => apply IH in E end;
  injection H as <- <-; cbn [length] in *; lia.
Qed.

(* a program parsed from its integer code is no larger than the code *)
Lemma parse_size f :
  (forall k l ps r, parse_progs f k l = Some (ps, r) -> (psizes ps + length r <= length l)%nat) /\
  (forall l p r, parse_prog f l = Some (p, r) -> (psize p + length r <= length l)%nat) /\
  (forall l b r, parse_body f l = Some (b, r) -> (bsize b + length r <= length l)%nat).
Proof.
  induction f as [|f (IH1 & IH2 & IH3)]; [repeat split; intros; discriminate|].
  split; [|split].
  - intros k l ps r H. cbn [parse_progs] in H. destruct k as [|k]; [injection H as <- <-; cbn; lia|].
    destruct (parse_prog f l) as [[p r1]|] eqn:E1; [|discriminate].
    destruct (parse_progs f k r1) as [[ps' r2]|] eqn:E2; [|discriminate]. injection H as <- <-.
    apply IH2 in E1. apply IH1 in E2. cbn [psizes]. lia.
  - intros l p r H. cbn [parse_prog] in H.
    repeat match type of H with
    | match ?x with _ => _ end = _ => let E := fresh "E" in destruct x eqn:E; try discriminate
    end;
    try (injection H as <- <-; cbn [psize length]; lia);
    repeat match goal with
    | E : parse_body f _ = Some _ |- _ => apply IH3 in E
    | E : parse_progs f _ _ = Some _ |- _ => apply IH1 in E
    end.
    all: try (injection H as <- <-; try rewrite psize_capture; cbn [psize length] in *; lia).
  - intros l b r H. cbn [parse_body] in H.
    repeat match type of H with
    | match ?x with _ => _ end = _ => let E := fresh "E" in destruct x eqn:E; try discriminate
    end;
    try (injection H as <- <-; cbn [bsize length]; lia);
    repeat match goal with
    | E : parse_body f _ = Some _ |- _ => apply IH3 in E
    | E : parse_progs f _ _ = Some _ |- _ => apply IH1 in E
    | E : parse_sops _ _ = Some _ |- _ => apply parse_sops_len in E
    end.
    all: try (injection H as <- <-; try rewrite bsize_prog; cbn [bsize length] in *; lia).
Qed.

(* decoding a whole input with any program, with fuel beyond program size plus
   input length, never runs out of fuel: the model's loops are bounded by the
   input *)
Theorem any_program_terminates fuel m ps d :
  (psizes ps + length d + 3 <= fuel)%nat ->
  fst (decode_src m (fun c => exec fuel ps c []) (pure_src d None)) <> NoFuel.
Proof.
  intros Hf.
  assert (H : Tm (len d) (decode_src m (fun c => exec fuel ps c [])) (fun _ => 0)).
  { unfold decode_src. eapply Tm_bind0; [apply (proj1 (Tm_exec fuel (len d))); unfold len; lia|].
    intros [r c]. eapply Tm_bind0; [apply Tm_cons_exhausted|]. intro. apply Tm_ret0. }
  specialize (H (pure_src d None) eq_refl ltac:(cbn; lia)).
  destruct (decode_src m (fun c => exec fuel ps c []) (pure_src d None)) as [[a| | | |] s']; cbn; try discriminate.
  contradiction.
Qed.

(* in terms of the function the streams evaluate: never the observation
   "out of fuel" - together with run_program_never_panics: every run of the
   model ends in a value, a content error or (with a failing source) the
   source error *)
Theorem run_program_terminates m code d : run_program m code d <> [4%Z].
Proof.
  unfold run_program. destruct code as [|n r]; [discriminate|].
  destruct (parse_progs _ _ r) as [[ps [|x rest]]|] eqn:E; try discriminate.
  pose proof (proj1 (parse_size _) _ _ _ _ E) as Hs. cbn [length] in Hs.
  pose proof (any_program_terminates (S (S (length (n :: r) + 2 * length d))) m ps d ltac:(cbn [length]; lia)) as H.
  destruct (decode_src m _ (pure_src d None)) as [[lg| | | |] s']; cbn [fst] in H; try discriminate.
  congruence.
Qed.
