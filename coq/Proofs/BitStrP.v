(* Proofs about Model/BitStr.v (property C19). *)
From Coq Require Import Lia ZifyBool ZifyN ZifyNat.
Require Import BV.Model.Base BV.Model.SrcB BV.Model.Int BV.Model.BitStr.
Require Import BV.Proofs.Bits BV.Proofs.SrcBP BV.Proofs.IntP.
Ltac Zify.zify_post_hook ::= Z.div_mod_to_equations.
Arguments N.add : simpl never. Arguments N.sub : simpl never.
Arguments N.mul : simpl never. Arguments N.ltb : simpl never.
Arguments N.leb : simpl never. Arguments N.eqb : simpl never.
Arguments N.land : simpl never. Arguments N.shiftl : simpl never.
Arguments N.shiftr : simpl never. Arguments N.testbit : simpl never.

(* ---------- acceptance ---------- *)
Definition bit_decode_spec (m : mode) (c : list N) : res bitstr :=
  match c with
  | [] => CErr
  | u :: bits =>
      if (mode_eqb m Cer && (1000 <? len c)) || (7 <? u) || ((len bits =? 0) && (0 <? u))
      then CErr else Ok (u, bits)
  end.

Lemma full_src r : mkSrc r (Some (len r)) None = full r. Proof. reflexivity. Qed.

Theorem bit_from_prim_spec m c :
  prim_decode (bit_from_prim m) c = bit_decode_spec m c.
Proof.
  unfold prim_decode, bit_from_prim, bit_decode_spec. change (pure_src c (Some (len c))) with (full c).
  unfold bind at 1.
  rewrite (bind_ok remaining _ _ (len c) (full c)) by reflexivity.
  destruct c as [|u bits].
  - change (len []) with 0. change (1000 <? 0) with false. rewrite andb_false_r. reflexivity.
  - destruct (mode_eqb m Cer && (1000 <? len (u :: bits))); [reflexivity|]. cbn [orb].
    rewrite (bind_ok take_u8 _ _ u (full bits)) by apply take_u8_full.
    destruct (7 <? u); [reflexivity|]. cbn [orb].
    rewrite (bind_ok remaining _ _ (len bits) (full bits)) by reflexivity.
    destruct ((len bits =? 0) && (0 <? u)); [reflexivity|].
    rewrite (bind_ok take_all_lim _ _ bits done_src) by apply take_all_full.
    reflexivity.
Qed.

Lemma skip_all_full c : skip_all_lim (full c) = (Ok tt, done_src).
Proof.
  unfold skip_all_lim. cbn [lim full].
  rewrite (bind_ok (need (len c)) _ _ tt (full c)) by apply need_full.
  apply advance_full.
Qed.

(* skipping accepts exactly the same encodings *)
Theorem bit_skip_prim_spec m c :
  prim_decode (bit_skip_prim m) c = res_map (fun _ => tt) (bit_decode_spec m c).
Proof.
  unfold prim_decode, bit_skip_prim, bit_decode_spec. change (pure_src c (Some (len c))) with (full c).
  unfold bind at 1.
  rewrite (bind_ok remaining _ _ (len c) (full c)) by reflexivity.
  destruct c as [|u bits].
  - change (len []) with 0. change (1000 <? 0) with false. rewrite andb_false_r. reflexivity.
  - destruct (mode_eqb m Cer && (1000 <? len (u :: bits))); [reflexivity|]. cbn [orb].
    rewrite (bind_ok take_u8 _ _ u (full bits)) by apply take_u8_full.
    destruct (7 <? u); [reflexivity|]. cbn [orb].
    rewrite (bind_ok remaining _ _ (len bits) (full bits)) by reflexivity.
    destruct ((len bits =? 0) && (0 <? u)); [reflexivity|].
    rewrite skip_all_full. reflexivity.
Qed.

(* what is accepted is a valid bit string, keeps the data octets unchanged and
   re-encodes to the original content *)
Theorem bit_accepted_valid m c v : prim_decode (bit_from_prim m) c = Ok v ->
  bs_valid v /\ bs_write v = c /\ bs_octets v = tl c /\ bs_unused v = hd 0 c.
Proof.
  rewrite bit_from_prim_spec. unfold bit_decode_spec. destruct c as [|u bits]; [discriminate|].
  destruct (_ || _) eqn:E; [discriminate|]. intros [= <-].
  apply orb_false_iff in E as [E E3]. apply orb_false_iff in E as [E1 E2].
  repeat split; cbn.
  - lia.
  - intros ->. cbn in E3. lia.
Qed.

(* ---------- bits ---------- *)
Lemma nth_firstn_lt {A} (l : list A) n k d : nth k (firstn n l) d = if (k <? n)%nat then nth k l d else d.
Proof.
  revert n k. induction l as [|x l IH]; intros n k.
  - rewrite firstn_nil. destruct k; destruct (_ <? _)%nat; reflexivity.
  - destruct n as [|n]; [destruct k; reflexivity|]. destruct k as [|k]; [reflexivity|].
    cbn [firstn nth]. rewrite IH. reflexivity.
Qed.

Lemma nth_byte_bits b k : (k < 8)%nat -> nth k (byte_bits b) false = N.testbit b (N.of_nat (7 - k)).
Proof.
  intro H. do 8 (destruct k as [|k]; [reflexivity|]). lia.
Qed.

Lemma nth_flat_bits l k :
  nth k (flat_map byte_bits l) false =
    if (k / 8 <? length l)%nat then N.testbit (nth (k / 8) l 0) (N.of_nat (7 - k mod 8)) else false.
Proof.
  revert k. induction l as [|b r IH]; intro k.
  - cbn. destruct k; reflexivity.
  - cbn [flat_map length].
    destruct (Nat.ltb_spec k 8) as [Hk|Hk].
    + rewrite app_nth1 by (cbn; lia). rewrite nth_byte_bits by exact Hk.
      replace (k / 8)%nat with 0%nat by (symmetry; apply Nat.div_small; lia).
      rewrite Nat.mod_small by lia. reflexivity.
    + rewrite app_nth2 by (cbn; lia). change (length (byte_bits b)) with 8%nat.
      rewrite IH.
      assert (E1 : (k / 8 = S ((k - 8) / 8))%nat).
      { replace k with ((k - 8) + 1 * 8)%nat at 1 by lia. rewrite Nat.div_add by lia. lia. }
      assert (E2 : ((k - 8) mod 8 = k mod 8)%nat).
      { replace k with ((k - 8) + 1 * 8)%nat at 2 by lia. rewrite Nat.mod_add by lia. reflexivity. }
      rewrite E1, E2. cbn [nth].
      destruct (Nat.ltb_spec ((k - 8) / 8) (length r)); destruct (Nat.ltb_spec (S ((k - 8) / 8)) (S (length r)));
        try lia; reflexivity.
Qed.

Lemma testbit_mask x k : negb (N.land x (N.shiftl 1 k) =? 0) = N.testbit x k.
Proof.
  rewrite N.shiftl_1_l. rewrite land_pow2.
  pose proof (N.testbit_spec' x k) as H.
  destruct (N.testbit x k); cbn [N.b2n] in H.
  - assert (0 < 2 ^ k) by (apply N.neq_0_lt_0; apply N.pow_nonzero; lia). nia.
  - rewrite <- H. rewrite N.mul_0_r. reflexivity.
Qed.

(* bit i is the i-th encoded bit in most-significant-first order, and false at
   and beyond the bit length - whatever the unused trailing bits contain *)
Theorem bs_bit_spec v i : bs_valid v ->
  bs_bit v i = nth (N.to_nat i) (bits_of v) false.
Proof.
  destruct v as [unused bits]. intros [Hu He]. unfold bs_bit, bits_of.
  rewrite nth_firstn_lt, nth_flat_bits.
  rewrite shiftr_k. change (2^3) with 8. rewrite land_7.
  set (k := N.to_nat i).
  assert (Hdiv : N.to_nat (i / 8) = (k / 8)%nat) by (subst k; rewrite Nnat.N2Nat.inj_div; reflexivity).
  assert (Hmod : N.to_nat (i mod 8) = (k mod 8)%nat) by (subst k; rewrite Nnat.N2Nat.inj_mod; reflexivity).
  unfold len.
  destruct (N.leb_spec (N.of_nat (length bits)) (i / 8)) as [H1|H1].
  - (* beyond the data octets *)
    destruct (Nat.ltb_spec k (8 * length bits - N.to_nat unused)); [|reflexivity].
    destruct (Nat.ltb_spec (k / 8) (length bits)); [lia|reflexivity].
  - rewrite testbit_mask.
    destruct ((N.of_nat (length bits) =? i / 8 + 1) && (7 - i mod 8 <? unused)) eqn:E.
    + (* inside the unused tail of the last octet *)
      apply andb_true_iff in E as [E1 E2].
      destruct (Nat.ltb_spec k (8 * length bits - N.to_nat unused)); [|reflexivity].
      exfalso. assert (k = 8 * (k / 8) + k mod 8)%nat by (apply Nat.div_mod; lia). lia.
    + destruct (Nat.ltb_spec k (8 * length bits - N.to_nat unused)) as [H2|H2].
      * destruct (Nat.ltb_spec (k / 8) (length bits)); [|lia].
        rewrite Hdiv. f_equal. lia.
      * exfalso. apply andb_false_iff in E.
        assert (k = 8 * (k / 8) + k mod 8)%nat by (apply Nat.div_mod; lia).
        assert (k mod 8 < 8)%nat by (apply Nat.mod_upper_bound; lia).
        destruct E as [E|E]; lia.
Qed.

Theorem bs_bit_len_spec v : bs_valid v -> bs_bit_len v = len (bits_of v).
Proof.
  destruct v as [unused bits]. intros [Hu He]. unfold bs_bit_len, bits_of, len.
  rewrite firstn_length.
  assert (L : length (flat_map byte_bits bits) = (8 * length bits)%nat).
  { clear. induction bits as [|b r IH]; [reflexivity|]. cbn [flat_map]. rewrite app_length, IH. cbn; lia. }
  rewrite L. rewrite shiftl_k. change (2^3) with 8. lia.
Qed.

(* ---------- the constructor and the encode-then-decode direction ---------- *)
(* BitString::new succeeds (no assertion failure) exactly on valid arguments *)
Theorem bit_new_spec unused bits :
  (bs_valid (unused, bits) -> bit_new unused bits = Ok (unused, bits)) /\
  (~ bs_valid (unused, bits) -> bit_new unused bits = Panic).
Proof.
  unfold bit_new, bs_valid, len. split.
  - intros [Hu He].
    destruct (N.leb_spec unused 7) as [_|?]; [|lia]. cbn [andb].
    destruct bits as [|b r].
    + rewrite (He eq_refl). reflexivity.
    + cbn [length]. destruct (N.eqb_spec (N.of_nat (S (length r))) 0) as [?|_]; [lia|]. reflexivity.
  - intros Hn.
    destruct (N.leb_spec unused 7) as [Hu|?]; [|reflexivity]. cbn [andb].
    destruct bits as [|b r].
    + cbn [length]. change (N.of_nat 0 =? 0) with true. cbn [negb orb].
      destruct (N.eqb_spec unused 0) as [->|_]; [|reflexivity].
      exfalso. apply Hn. split; [lia|reflexivity].
    + exfalso. apply Hn. split; [exact Hu|discriminate].
Qed.

(* what a valid value writes is accepted again and decodes to the same value
   (in CER provided the content respects the 1000-octet limit) *)
Theorem bit_write_decode m v : bs_valid v ->
  (mode_eqb m Cer && (1000 <? len (bs_write v))) = false ->
  prim_decode (bit_from_prim m) (bs_write v) = Ok v.
Proof.
  destruct v as [unused bits]. intros [Hu He] Hc. rewrite bit_from_prim_spec.
  unfold bit_decode_spec, bs_write in *. cbn [fst snd] in *. cbv beta iota. rewrite Hc. cbn [orb].
  destruct (N.ltb_spec 7 unused) as [?|_]; [lia|]. cbn [orb].
  destruct bits as [|b r].
  - rewrite (He eq_refl). reflexivity.
  - unfold len. cbn [length]. destruct (N.eqb_spec (N.of_nat (S (length r))) 0) as [?|_]; [lia|]. reflexivity.
Qed.

(* in CER a valid value longer than the limit is the only one its own
   encoding is refused for *)
Theorem bit_write_decode_cer_long v : bs_valid v -> 1000 < len (bs_write v) ->
  prim_decode (bit_from_prim Cer) (bs_write v) = CErr.
Proof.
  destruct v as [unused bits]. intros _ Hl. rewrite bit_from_prim_spec.
  unfold bit_decode_spec, bs_write in *. cbn [fst snd] in *. cbv beta iota. cbn [mode_eqb andb].
  destruct (N.ltb_spec 1000 (len (unused :: bits))) as [_|?]; [|lia]. reflexivity.
Qed.
