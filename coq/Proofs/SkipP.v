(* Skipping versus the grammar (property C10): the explicit-stack machine
   skip_loop / skip_after / skip_unwind skips exactly one well-formed value,
   advancing over exactly its octets and presenting every nested value to the
   filter once, in encoding order, with its depth. Together with GrammarP.v:
   skipping accepts exactly what reading accepts. *)
From Coq Require Import Lia ZifyBool ZifyN ZifyNat.
Require Import BV.Model.Base BV.Model.SrcB BV.Model.Length BV.Model.Tag BV.Model.Content.
Require Import BV.Proofs.Bits BV.Proofs.SrcBP BV.Proofs.LengthP BV.Proofs.TagP BV.Proofs.ContentP
               BV.Proofs.WinP BV.Proofs.TotalP BV.Proofs.DeltaP BV.Proofs.GrammarP.
Arguments N.add : simpl never. Arguments N.sub : simpl never.
Arguments N.ltb : simpl never. Arguments N.leb : simpl never. Arguments N.eqb : simpl never.
Arguments N.min : simpl never.

(* what the filter sees: every value, parents before children, in order *)
Fixpoint trace_of (t : tlv) (depth : N) : trace :=
  match t with
  | TPrim tg _ => [(tg, false, depth)]
  | TCons tg kids =>
      (tg, true, depth) ::
      (fix go (l : list tlv) : trace :=
         match l with [] => [] | x :: r => trace_of x (depth + 1) ++ go r end) kids
  end.
Fixpoint traces (l : list tlv) (depth : N) : trace :=
  match l with [] => [] | x :: r => trace_of x depth ++ traces r depth end.
Lemma trace_cons tg kids depth : trace_of (TCons tg kids) depth = (tg, true, depth) :: traces kids (depth + 1).
Proof.
  cbn [trace_of]. f_equal. induction kids as [|x r IH]; [reflexivity|]. cbn [traces]. rewrite <- IH. reflexivity.
Qed.

Definition accepts (fl : filter) (tr : trace) : bool :=
  forallb (fun x : tag * bool * N => let '(t, k, d) := x in fl t k d) tr.
Lemma accepts_app fl a b : accepts fl (a ++ b) = accepts fl a && accepts fl b.
Proof. apply forallb_app. Qed.

(* one step of the two mutually recursive loops *)
Lemma skip_after_S f c fl st tr :
  skip_after (S f) c fl st tr =
  (o <- skip_unwind (S (length st)) st ;;
   match o with None => ret (SkSome, c, tr) | Some st' => skip_loop f c fl st' tr end).
Proof. reflexivity. Qed.

(* between two members of an open value: nothing to unwind *)
Lemma skip_after_open f c fl top st tr d l :
  l <> Some 0 ->
  skip_after (S f) c fl (top :: st) tr (mkSrc d l None) = skip_loop f c fl (top :: st) tr (mkSrc d l None).
Proof.
  intro Hl. rewrite skip_after_S. cbn [skip_unwind]. unfold bind at 1. unfold bind at 1. unfold get_lim. cbn [lim].
  destruct l as [[|p]|]; try congruence; reflexivity.
Qed.

(* at the end of a definite-length value: its frame is popped, the enclosing
   limit restored, and the outer frames are examined in the same way *)
Lemma skip_after_pop f c fl lr st tr d :
  skip_after (S f) c fl (Some lr :: st) tr (mkSrc d (Some 0) None)
  = skip_after (S f) c fl st tr (mkSrc d lr None).
Proof.
  rewrite !skip_after_S. cbn [length]. cbn [skip_unwind]. unfold bind at 1. unfold bind at 1. unfold bind at 1.
  unfold get_lim, set_limit. cbn [lim rem flt]. reflexivity.
Qed.

(* skip_loop once the header (t, k, v) has been read *)
Definition skip_tail (f : nat) (c : cons) (fl : filter) (st : stack) (tr : trace) (t : tag) (k : bool) (l : length_)
  : M (skip_out * cons * trace) :=
  let depth := len st in
  if negb k then
    if tag_eqb t END_OF_VALUE then
      if negb (length_is_zero l) then cerr else
      match st with
      | None :: st' => skip_after f c fl st' tr
      | [] => match cst c with
              | Indefinite => ret (SkNone, with_state c Done, tr)
              | _ => cerr end
      | Some _ :: _ => cerr
      end
    else
      match l with
      | Definite_ n =>
          if negb (fl t k depth) then cerr else
          need n ;;; advance n ;;; skip_after f c fl st (tr ++ [(t, k, depth)])
      | Indefinite_ => cerr
      end
  else if tag_eqb t END_OF_VALUE then cerr
  else
    match l with
    | Definite_ n =>
        if mode_eqb (cmd c) Cer then cerr else
        if negb (fl t k depth) then cerr else
        ol <- get_lim ;;
        match ol with
        | Some li =>
            if li <? n then cerr else
            set_limit (Some n) ;;;
            skip_after f c fl (Some (Some (li - n)) :: st) (tr ++ [(t, k, depth)])
        | None =>
            set_limit (Some n) ;;;
            skip_after f c fl (Some None :: st) (tr ++ [(t, k, depth)])
        end
    | Indefinite_ =>
        if mode_eqb (cmd c) Der then cerr else
        if negb (fl t k depth) then cerr else
        skip_loop f c fl (None :: st) (tr ++ [(t, k, depth)])
    end.

Lemma skip_header f c fl st tr t k lw v rest l :
  legal_tag t -> octets_ok (tag_write k t ++ lw ++ rest) = true ->
  length_read_spec (cmd c) (lw ++ rest) = Ok (v, rest) ->
  lim_ge l (len (tag_write k t) + len lw) ->
  skip_loop (S f) c fl st tr (mkSrc (tag_write k t ++ lw ++ rest) l None)
  = skip_tail f c fl st tr t k v (mkSrc rest (lim_sub l (len (tag_write k t) + len lw)) None).
Proof.
  intros Ht Hok Hs Hl. cbn [skip_loop].
  assert (Hl1 : lim_ge l (len (tag_write k t))) by (eapply lim_ge_mono; [|exact Hl]; lia).
  assert (Hhdr : (if match st with [] => cstate_eqb (cst c) Unbounded | _ :: _ => false end
                  then tag_take_opt_from else r <- tag_take_from ;; ret (Some r))
                   (mkSrc (tag_write k t ++ lw ++ rest) l None)
                 = (Ok (Some (t, k)), mkSrc (lw ++ rest) (lim_sub l (len (tag_write k t))) None)).
  { destruct Ht as [Hc Hn].
    destruct (match st with [] => cstate_eqb (cst c) Unbounded | _ :: _ => false end).
    - apply (tag_take_opt_from_write _ _ t k (lw ++ rest) l Hc Hn Hl1).
    - unfold bind. rewrite (tag_read_back _ _ t k (lw ++ rest) l Hc Hn Hl1). reflexivity. }
  rewrite (bind_ok _ _ _ _ _ Hhdr). cbv iota beta.
  assert (Hlen : length_take_from (cmd c) (mkSrc (lw ++ rest) (lim_sub l (len (tag_write k t))) None)
                 = (Ok v, mkSrc rest (lim_sub l (len (tag_write k t) + len lw)) None)).
  { rewrite (length_at_limit (cmd c) lw rest _ v (octets_ok_app_r _ _ Hok) Hs (lim_ge_sub _ _ _ Hl)).
    rewrite lim_sub_sub. reflexivity. }
  rewrite (bind_ok _ _ _ _ _ Hlen). reflexivity.
Qed.

(* ====================================================================== *)
(* completeness: a well-formed value is skipped, exactly                   *)
(* ====================================================================== *)
Definition KV (m : mode) (t : tlv) (d : list N) : Prop :=
  exists k, (k <= 2 * length d - 1)%nat /\
    forall fuel c fl st tr rest l, cmd c = m -> octets_ok (d ++ rest) = true -> lim_ge l (len d) ->
      accepts fl (trace_of t (len st)) = true ->
      skip_loop (k + S fuel) c fl st tr (mkSrc (d ++ rest) l None)
      = skip_after (S fuel) c fl st (tr ++ trace_of t (len st)) (mkSrc rest (lim_sub l (len d)) None).

Definition KS (m : mode) (ts : list tlv) (ds : list N) : Prop :=
  (exists k, (k <= 2 * length ds)%nat /\
     forall fuel c fl st tr rest lr, cmd c = m -> octets_ok (ds ++ rest) = true ->
       accepts fl (traces ts (len st + 1)) = true ->
       skip_after (k + S fuel) c fl (Some lr :: st) tr (mkSrc (ds ++ rest) (Some (len ds)) None)
       = skip_after (S fuel) c fl st (tr ++ traces ts (len st + 1)) (mkSrc rest lr None)) /\
  (exists k, (k <= 2 * length ds)%nat /\
     forall fuel c fl st tr lw0 rest l, cmd c = m -> octets_ok (ds ++ 0 :: lw0 ++ rest) = true ->
       lenoct m 0 lw0 -> lim_ge l (len ds + 1 + len lw0) ->
       accepts fl (traces ts (len st + 1)) = true ->
       skip_loop (k + S fuel) c fl (None :: st) tr (mkSrc (ds ++ 0 :: lw0 ++ rest) l None)
       = skip_after fuel c fl st (tr ++ traces ts (len st + 1)) (mkSrc rest (lim_sub l (len ds + 1 + len lw0)) None)).

Lemma len_stack_cons (x : option (option N)) st : len (x :: st) = len st + 1.
Proof. rewrite len_cons. lia. Qed.

Lemma KS_nil m : KS m [] [].
Proof.
  split.
  - exists 0%nat. split; [cbn; lia|]. intros fuel c fl st tr rest lr _ _ _.
    cbn [plus app traces len length N.of_nat]. rewrite app_nil_r. apply skip_after_pop.
  - exists 0%nat. split; [cbn; lia|]. intros fuel c fl st tr lw0 rest l Hm Hok Hlw Hl _. subst m.
    cbn [plus app traces]. rewrite app_nil_r.
    change (0 :: lw0 ++ rest) with (tag_write false END_OF_VALUE ++ lw0 ++ rest).
    assert (Htw : len (tag_write false END_OF_VALUE) = 1) by reflexivity.
    rewrite (skip_header fuel c fl (None :: st) tr END_OF_VALUE false lw0 (Definite_ 0) rest l legal_eov Hok (Hlw rest)
               ltac:(rewrite Htw; eapply lim_ge_mono; [|exact Hl]; change (len (@nil N)) with 0; lia)).
    unfold skip_tail. cbn [negb]. change (tag_eqb END_OF_VALUE END_OF_VALUE) with true. cbn [length_is_zero N.eqb negb].
    rewrite Htw. change (len (@nil N)) with 0. replace (0 + 1 + len lw0) with (1 + len lw0) by lia. reflexivity.
Qed.

Lemma KS_cons m t ts d ds : 1 <= len d -> KV m t d -> KS m ts ds -> KS m (t :: ts) (d ++ ds).
Proof.
  intros Hpos (k1 & Hk1 & HV) ((k2 & Hk2 & HD) & (k3 & Hk3 & HI)).
  assert (Hd1 : (1 <= length d)%nat) by (unfold len in Hpos; lia).
  split.
  - exists (S (k1 + k2)). split; [rewrite app_length; lia|].
    intros fuel c fl st tr rest lr Hm Hok Hacc. cbn [traces] in *. rewrite accepts_app in Hacc. apply andb_prop in Hacc as [Ha1 Ha2].
    replace (S (k1 + k2) + S fuel)%nat with (S (k1 + S (k2 + fuel)))%nat by lia.
    rewrite skip_after_open by (rewrite len_app; intros [= H]; lia).
    rewrite <- app_assoc.
    rewrite (HV (k2 + fuel)%nat c fl (Some lr :: st) tr (ds ++ rest) (Some (len (d ++ ds))) Hm
               ltac:(rewrite app_assoc; exact Hok) ltac:(cbn; rewrite len_app; lia)
               ltac:(rewrite len_stack_cons; exact Ha1)).
    cbn [lim_sub]. replace (len (d ++ ds) - len d) with (len ds) by (rewrite len_app; lia).
    replace (S (k2 + fuel))%nat with (k2 + S fuel)%nat by lia.
    rewrite (HD fuel c fl st _ rest lr Hm ltac:(rewrite <- app_assoc in Hok; apply octets_ok_app_r in Hok; exact Hok) Ha2).
    rewrite len_stack_cons, <- app_assoc. reflexivity.
  - exists (S (k1 + k3)). split; [rewrite app_length; lia|].
    intros fuel c fl st tr lw0 rest l Hm Hok Hlw Hl Hacc. cbn [traces] in *. rewrite accepts_app in Hacc. apply andb_prop in Hacc as [Ha1 Ha2].
    replace (S (k1 + k3) + S fuel)%nat with (k1 + S (k3 + S fuel))%nat by lia.
    rewrite <- app_assoc. rewrite len_app in Hl.
    rewrite (HV (k3 + S fuel)%nat c fl (None :: st) tr (ds ++ 0 :: lw0 ++ rest) l Hm
               ltac:(rewrite app_assoc; exact Hok) ltac:(eapply lim_ge_mono; [|exact Hl]; lia)
               ltac:(rewrite len_stack_cons; exact Ha1)).
    rewrite skip_after_open by (destruct l as [x|]; cbn [lim_sub lim_ge] in *; [intros [= H]; lia|discriminate]).
    rewrite (HI fuel c fl st _ lw0 rest (lim_sub l (len d)) Hm
               ltac:(rewrite <- app_assoc in Hok; apply octets_ok_app_r in Hok; exact Hok) Hlw
               ltac:(apply lim_ge_sub; eapply lim_ge_mono; [|exact Hl]; lia) Ha2).
    rewrite lim_sub_sub, len_app, len_stack_cons, <- app_assoc.
    replace (len d + (len ds + 1 + len lw0)) with (len d + len ds + 1 + len lw0) by lia. reflexivity.
Qed.

Lemma accepts_one fl t k d : accepts fl [(t, k, d)] = fl t k d.
Proof. cbn. apply andb_true_r. Qed.

Lemma KV_prim m t c lw : legal_tag t -> tag_eqb t END_OF_VALUE = false -> lenoct m (len c) lw ->
  KV m (TPrim t c) (tag_write false t ++ lw ++ c).
Proof.
  intros Ht He Hlw. exists 1%nat. split.
  { rewrite !app_length. pose proof (tag_write_length_pos false t). pose proof (lenoct_nonempty _ _ _ Hlw). lia. }
  intros fuel cc fl st tr rest l Hm Hok Hl Hacc. subst m. cbn [trace_of] in *. rewrite accepts_one in Hacc.
  rewrite <- !app_assoc in *. rewrite !len_app in Hl.
  assert (Hl' : lim_ge l (len (tag_write false t) + len lw)) by (eapply lim_ge_mono; [|exact Hl]; lia).
  change (1 + S fuel)%nat with (S (S fuel)).
  rewrite (skip_header (S fuel) cc fl st tr t false lw (Definite_ (len c)) (c ++ rest) l Ht Hok (Hlw (c ++ rest)) Hl').
  unfold skip_tail. cbn [negb]. rewrite He, Hacc. cbn [negb].
  set (l1 := lim_sub l (len (tag_write false t) + len lw)).
  assert (Hl1 : lim_ge l1 (len c)) by (subst l1; destruct l as [x|]; cbn [lim_ge lim_sub] in *; [lia|trivial]).
  rewrite (bind_ok _ _ _ _ _ (need_ok (len c) (c ++ rest) l1 ltac:(rewrite len_app; lia) Hl1)).
  rewrite (bind_ok _ _ _ _ _ (advance_ok (len c) (c ++ rest) l1 ltac:(rewrite len_app; lia) Hl1)).
  rewrite skipN_app_exact. subst l1. rewrite lim_sub_sub, !len_app.
  replace (len (tag_write false t) + len lw + len c) with (len (tag_write false t) + (len lw + len c)) by lia.
  reflexivity.
Qed.

Lemma KV_def m t kids lw body : legal_tag t -> tag_eqb t END_OF_VALUE = false -> m <> Cer ->
  lenoct m (len body) lw -> KS m kids body ->
  KV m (TCons t kids) (tag_write true t ++ lw ++ body).
Proof.
  intros Ht He Hcer Hlw ((k2 & Hk2 & HD) & _). exists (S k2). split.
  { rewrite !app_length. pose proof (tag_write_length_pos true t). pose proof (lenoct_nonempty _ _ _ Hlw). lia. }
  intros fuel cc fl st tr rest l Hm Hok Hl Hacc. subst m. rewrite trace_cons in *.
  change ((tag_write true t ++ lw ++ body) ++ rest) with ((tag_write true t ++ lw ++ body) ++ rest).
  cbn [accepts forallb] in Hacc. apply andb_prop in Hacc as [Ha0 Ha1]. fold (accepts fl (traces kids (len st + 1))) in Ha1.
  rewrite <- !app_assoc in *. rewrite !len_app in Hl.
  assert (Hl' : lim_ge l (len (tag_write true t) + len lw)) by (eapply lim_ge_mono; [|exact Hl]; lia).
  change (S k2 + S fuel)%nat with (S (k2 + S fuel)).
  rewrite (skip_header (k2 + S fuel) cc fl st tr t true lw (Definite_ (len body)) (body ++ rest) l Ht Hok (Hlw (body ++ rest)) Hl').
  unfold skip_tail. cbn [negb]. rewrite He, Ha0.
  replace (mode_eqb (cmd cc) Cer) with false by (destruct (cmd cc); try reflexivity; congruence). cbn [negb].
  set (l1 := lim_sub l (len (tag_write true t) + len lw)).
  assert (Hok2 : octets_ok (body ++ rest) = true) by (apply octets_ok_app_r in Hok; apply octets_ok_app_r in Hok; exact Hok).
  unfold bind at 1. unfold get_lim. cbn [lim].
  assert (Hfin : lim_sub l (len (tag_write true t) + (len lw + len body)) = lim_sub l1 (len body)).
  { subst l1. rewrite lim_sub_sub. f_equal. lia. }
  rewrite !len_app. rewrite Hfin.
  destruct l1 as [li|] eqn:El1.
  - assert (Hli : len body <= li).
    { destruct l as [x|]; cbn [lim_ge lim_sub] in *; [|discriminate]. injection El1 as <-. lia. }
    replace (li <? len body) with false by lia.
    unfold bind at 1. unfold set_limit. cbn [rem flt].
    rewrite (HD fuel cc fl st _ rest (Some (li - len body)) eq_refl Hok2 Ha1).
    cbn [lim_sub]. rewrite <- app_assoc. reflexivity.
  - unfold bind at 1. unfold set_limit. cbn [rem flt].
    rewrite (HD fuel cc fl st _ rest None eq_refl Hok2 Ha1).
    cbn [lim_sub]. rewrite <- app_assoc. reflexivity.
Qed.

Lemma KV_indef m t kids body lw0 : legal_tag t -> tag_eqb t END_OF_VALUE = false -> m <> Der ->
  KS m kids body -> lenoct m 0 lw0 ->
  KV m (TCons t kids) (tag_write true t ++ [128] ++ body ++ 0 :: lw0).
Proof.
  intros Ht He Hder (_ & (k3 & Hk3 & HI)) Hlw0. exists (S (S k3)). split.
  { rewrite !app_length. cbn [length]. pose proof (tag_write_length_pos true t). lia. }
  intros fuel cc fl st tr rest l Hm Hok Hl Hacc. subst m. rewrite trace_cons in *.
  cbn [accepts forallb] in Hacc. apply andb_prop in Hacc as [Ha0 Ha1]. fold (accepts fl (traces kids (len st + 1))) in Ha1.
  rewrite <- !app_assoc in *. cbn [app] in *.
  change (128 :: body ++ 0 :: lw0 ++ rest) with ([128] ++ (body ++ 0 :: lw0 ++ rest)) in *.
  assert (H128 : len [128] = 1) by reflexivity.
  assert (Hlen : len (tag_write true t ++ 128 :: body ++ 0 :: lw0) = len (tag_write true t) + 1 + (len body + 1 + len lw0)).
  { rewrite len_app, len_cons, len_app, len_cons. lia. }
  rewrite Hlen in Hl.
  assert (Hl' : lim_ge l (len (tag_write true t) + len [128])) by (eapply lim_ge_mono; [|exact Hl]; rewrite H128; lia).
  replace (S (S k3) + S fuel)%nat with (S (k3 + S (S fuel)))%nat by lia.
  rewrite (skip_header (k3 + S (S fuel)) cc fl st tr t true [128] Indefinite_ (body ++ 0 :: lw0 ++ rest) l Ht Hok (lenoct_indef _ _) Hl').
  unfold skip_tail. cbn [negb]. rewrite He, Ha0.
  replace (mode_eqb (cmd cc) Der) with false by (destruct (cmd cc); try reflexivity; congruence). cbn [negb].
  rewrite (HI (S fuel) cc fl st _ lw0 rest (lim_sub l (len (tag_write true t) + len [128])) eq_refl
             ltac:(apply octets_ok_app_r in Hok; apply octets_ok_app_r in Hok; exact Hok) Hlw0
             ltac:(apply lim_ge_sub; eapply lim_ge_mono; [|exact Hl]; rewrite H128; lia) Ha1).
  rewrite lim_sub_sub, H128, Hlen, <- app_assoc.
  replace (len (tag_write true t) + 1 + (len body + 1 + len lw0)) with (len (tag_write true t) + 1 + (len body + 1 + len lw0)) by lia.
  reflexivity.
Qed.

Theorem skip_complete m :
  (forall t d, GrammarP.enc m t d -> KV m t d) /\ (forall ts ds, encs m ts ds -> KS m ts ds).
Proof.
  apply enc_encs_ind.
  - intros t c lw Ht He Hlw. apply KV_prim; assumption.
  - intros t kids lw body Ht He Hc Hlw Hk IH. apply KV_def; assumption.
  - intros t kids body lw0 Ht He Hd Hk IH Hlw0. apply KV_indef; assumption.
  - apply KS_nil.
  - intros t ts d ds He IHv Hs IHs. apply KS_cons; [eapply enc_len_pos; eauto|assumption|assumption].
Qed.

(* skip_opt on a well-formed value: present, exactly its octets, the filter
   saw every nested value once, in order, with its depth *)
Theorem wellformed_is_skipped m t d c fl rest l fuel :
  GrammarP.enc m t d -> cmd c = m -> octets_ok (d ++ rest) = true -> lim_ge l (len d) -> may_start c l ->
  accepts fl (trace_of t 0) = true -> (2 * length d < fuel)%nat ->
  skip_opt fuel c fl (mkSrc (d ++ rest) l None)
  = (Ok (SkSome, c, trace_of t 0), mkSrc rest (lim_sub l (len d)) None).
Proof.
  intros He Hm Hok Hl Hst Hacc Hf.
  destruct (proj1 (skip_complete m) t d He) as (k & Hk & HV).
  unfold skip_opt.
  assert (Hex : is_exhausted c (mkSrc (d ++ rest) l None) = (Ok false, mkSrc (d ++ rest) l None)).
  { apply is_exhausted_open. unfold cons_open, may_start in *. destruct (cst c); auto. }
  rewrite (bind_ok _ _ _ _ _ Hex). cbv iota.
  replace fuel with (k + S (fuel - k - 1))%nat by lia.
  rewrite (HV _ c fl [] [] rest l Hm Hok Hl Hacc).
  rewrite skip_after_S. cbn [length skip_unwind]. unfold bind, ret. reflexivity.
Qed.

(* ====================================================================== *)
(* soundness: whatever is skipped is one well-formed value                  *)
(* ====================================================================== *)
(* AfterR m st l ds tr lf: between two values, with open frames st and limit
   l, the octets ds complete every open frame; the filter saw tr; the limit
   ends as lf. LoopR: the same, when a header must come next. *)
Inductive AfterR (m : mode) : stack -> option N -> list N -> trace -> option N -> Prop :=
| A_done l : AfterR m [] l [] [] l
| A_pop lr st ds tr lf :
    AfterR m st lr ds tr lf -> AfterR m (Some lr :: st) (Some 0) ds tr lf
| A_child top st l t d ds tr lf :
    l <> Some 0 -> GrammarP.enc m t d -> lim_ge l (len d) ->
    AfterR m (top :: st) (lim_sub l (len d)) ds tr lf ->
    AfterR m (top :: st) l (d ++ ds) (trace_of t (len st + 1) ++ tr) lf
| A_eoc st l lw0 ds tr lf :
    l <> Some 0 -> lenoct m 0 lw0 -> lim_ge l (1 + len lw0) ->
    AfterR m st (lim_sub l (1 + len lw0)) ds tr lf ->
    AfterR m (None :: st) l (0 :: lw0 ++ ds) tr lf.

Inductive LoopR (m : mode) : stack -> option N -> list N -> trace -> option N -> Prop :=
| L_child st l t d ds tr lf :
    GrammarP.enc m t d -> lim_ge l (len d) ->
    AfterR m st (lim_sub l (len d)) ds tr lf ->
    LoopR m st l (d ++ ds) (trace_of t (len st) ++ tr) lf
| L_eoc st l lw0 ds tr lf :
    lenoct m 0 lw0 -> lim_ge l (1 + len lw0) ->
    AfterR m st (lim_sub l (1 + len lw0)) ds tr lf ->
    LoopR m (None :: st) l (0 :: lw0 ++ ds) tr lf.

(* the members of a definite-length frame fill it exactly *)
Lemma frame_split_def m st0 l ds tr lf : AfterR m st0 l ds tr lf ->
  forall lr st x, st0 = Some lr :: st -> l = Some x ->
  exists kids body ds' tr',
    ds = body ++ ds' /\ encs m kids body /\ len body = x /\
    tr = traces kids (len st + 1) ++ tr' /\ AfterR m st lr ds' tr' lf.
Proof.
  induction 1 as [l|lr0 st0 ds tr lf H IH|top st0 l t d ds tr lf Hl He Hg H IH|st0 l lw0 ds tr lf Hl Hlw Hg H IH];
    intros lr st x Est El; try discriminate.
  - injection Est as -> ->. injection El as <-.
    exists [], [], ds, tr. repeat split; try reflexivity; [constructor|exact H].
  - injection Est as -> ->. subst l. cbn [lim_ge lim_sub] in *.
    destruct (IH lr st (x - len d) eq_refl eq_refl) as (kids & body & ds' & tr' & -> & Hk & Hb & -> & Ha).
    exists (t :: kids), (d ++ body), ds', tr'. split; [rewrite app_assoc; reflexivity|].
    split; [constructor; assumption|]. split; [rewrite len_app; lia|].
    split; [cbn [traces]; rewrite <- app_assoc; reflexivity|exact Ha].
Qed.

(* the members of an indefinite-length frame end with its end-of-contents *)
Lemma frame_split_indef_after m st0 l ds tr lf : AfterR m st0 l ds tr lf ->
  forall st, st0 = None :: st ->
  exists kids body lw0 ds' tr',
    ds = body ++ 0 :: lw0 ++ ds' /\ encs m kids body /\ lenoct m 0 lw0 /\
    lim_ge l (len body + 1 + len lw0) /\
    tr = traces kids (len st + 1) ++ tr' /\
    AfterR m st (lim_sub l (len body + 1 + len lw0)) ds' tr' lf.
Proof.
  induction 1 as [l|lr0 st0 ds tr lf H IH|top st0 l t d ds tr lf Hl He Hg H IH|st0 l lw0 ds tr lf Hl Hlw Hg H IH];
    intros st Est; try discriminate.
  - injection Est as -> ->.
    destruct (IH st eq_refl) as (kids & body & lw0 & ds' & tr' & -> & Hk & Hlw & Hg' & -> & Ha).
    exists (t :: kids), (d ++ body), lw0, ds', tr'. split; [rewrite app_assoc; reflexivity|].
    split; [constructor; assumption|]. split; [exact Hlw|].
    rewrite lim_sub_sub in Ha. rewrite len_app.
    split; [destruct l as [y|]; cbn [lim_ge lim_sub] in *; [lia|trivial]|].
    split; [cbn [traces]; rewrite <- app_assoc; reflexivity|].
    replace (len d + len body + 1 + len lw0) with (len d + (len body + 1 + len lw0)) by lia. exact Ha.
  - injection Est as ->.
    exists [], [], lw0, ds, tr. split; [reflexivity|]. split; [constructor|]. split; [exact Hlw|].
    change (len (@nil N)) with 0. replace (0 + 1 + len lw0) with (1 + len lw0) by lia.
    split; [exact Hg|]. split; [reflexivity|exact H].
Qed.

Lemma frame_split_indef m st l ds tr lf : LoopR m (None :: st) l ds tr lf ->
  exists kids body lw0 ds' tr',
    ds = body ++ 0 :: lw0 ++ ds' /\ encs m kids body /\ lenoct m 0 lw0 /\
    lim_ge l (len body + 1 + len lw0) /\
    tr = traces kids (len st + 1) ++ tr' /\
    AfterR m st (lim_sub l (len body + 1 + len lw0)) ds' tr' lf.
Proof.
  intro H. inversion H as [st0 l0 t d ds0 tr0 lf0 He Hg Ha|st0 l0 lw0 ds0 tr0 lf0 Hlw Hg Ha]; subst.
  - destruct (frame_split_indef_after m _ _ _ _ _ Ha st eq_refl) as (kids & body & lw0 & ds' & tr' & -> & Hk & Hlw & Hg' & -> & Ha').
    exists (t :: kids), (d ++ body), lw0, ds', tr'. split; [rewrite app_assoc; reflexivity|].
    split; [constructor; assumption|]. split; [exact Hlw|].
    rewrite lim_sub_sub in Ha'. rewrite len_app.
    split; [destruct l as [y|]; cbn [lim_ge lim_sub] in *; [lia|trivial]|].
    split; [cbn [traces]; rewrite len_stack_cons, <- app_assoc; reflexivity|].
    replace (len d + len body + 1 + len lw0) with (len d + (len body + 1 + len lw0)) by lia. exact Ha'.
  - exists [], [], lw0, ds0, tr. split; [reflexivity|]. split; [constructor|]. split; [exact Hlw|].
    change (len (@nil N)) with 0. replace (0 + 1 + len lw0) with (1 + len lw0) by lia.
    split; [exact Hg|]. split; [reflexivity|exact Ha].
Qed.

Lemma skip_loop_inv f c fl st tr s r s' :
  nf s -> octets_ok (rem s) = true ->
  skip_loop (S f) c fl st tr s = (Ok r, s') ->
  (st = [] /\ cst c = Unbounded /\ r = (SkNone, c, tr) /\ s' = s /\ (rem s = [] \/ lim s = Some 0)) \/
  (exists t k lw v r2,
     legal_tag t /\ rem s = tag_write k t ++ lw ++ r2 /\
     length_read_spec (cmd c) (lw ++ r2) = Ok (v, r2) /\
     lim_ge (lim s) (len (tag_write k t) + len lw) /\
     skip_tail f c fl st tr t k v (mkSrc r2 (lim_sub (lim s) (len (tag_write k t) + len lw)) None) = (Ok r, s')).
Proof.
  intros Hn Hok H. destruct s as [d l f0]. unfold nf in Hn. cbn in Hn. subst f0. cbn [rem lim] in *.
  cbn [skip_loop] in H.
  apply bind_ok_inv in H as (hdr & s1 & H1 & H).
  assert (Hhdr : (hdr = None /\ st = [] /\ cst c = Unbounded /\ s1 = mkSrc d l None /\ (d = [] \/ l = Some 0)) \/
                 (exists tk, hdr = Some tk /\ tag_take_from (mkSrc d l None) = (Ok tk, s1))).
  { destruct (match st with [] => cstate_eqb (cst c) Unbounded | _ :: _ => false end) eqn:Eu.
    - destruct hdr as [tk|].
      + right. exists tk. split; [reflexivity|]. apply tag_opt_some_is_take, H1.
      + left. split; [reflexivity|]. destruct st; [|discriminate]. split; [reflexivity|].
        split; [destruct (cst c); try discriminate; reflexivity|].
        assert (Hnf : nf (mkSrc d l None)) by reflexivity.
        split; [apply (tag_take_opt_from_none _ _ Hnf H1)|apply (tag_opt_none_state _ _ Hnf H1)].
    - apply bind_ok_inv in H1 as (tk & s1' & H1 & H1'). injection H1' as <- <-. right. exists tk. auto. }
  destruct Hhdr as [(-> & -> & Hu & -> & He)|((t & k) & -> & Ht)].
  { injection H as <- <-. left. repeat split; auto. }
  right.
  destruct (tag_at_limit_inv d l t k s1 Hok Ht) as (r1 & -> & Hleg & -> & Hl1).
  apply bind_ok_inv in H as (v & s2 & H2 & H).
  destruct (length_at_limit_inv (cmd c) r1 _ v s2 (octets_ok_app_r _ _ Hok) H2) as (lw & r2 & -> & Hspec & -> & Hl2).
  exists t, k, lw, v, r2. split; [exact Hleg|]. split; [reflexivity|]. split; [exact Hspec|].
  rewrite lim_sub_sub in H. split; [|exact H].
  destruct l as [x|]; cbn [lim_ge lim_sub] in *; [lia|trivial].
Qed.

Lemma need_advance_inv n s s' : nf s -> (need n ;;; advance n) s = (Ok tt, s') ->
  exists b, rem s = b ++ rem s' /\ len b = n /\ lim_ge (lim s) n /\
            s' = mkSrc (rem s') (lim_sub (lim s) n) None.
Proof.
  intros Hn H. apply bind_ok_inv in H as ([] & s1 & H1 & H2).
  destruct (need_ok_state n s s1 Hn H1) as [-> Ha].
  destruct s as [d l f]. unfold nf in Hn. cbn in Hn. subst f. unfold avail in Ha. cbn [lim rem] in *.
  assert (Hd : n <= len d) by (destruct l; lia).
  assert (Hl : lim_ge l n) by (destruct l; cbn; [lia|trivial]).
  rewrite (advance_ok n d l Hd Hl) in H2. injection H2 as <-. cbn [rem lim].
  exists (firstN n d). split; [symmetry; apply firstN_skipN|]. split; [apply len_firstN_le; exact Hd|]. auto.
Qed.

Definition SL (f : nat) : Prop :=
  forall c fl st tr s o c' tr' s', nf s -> octets_ok (rem s) = true ->
    skip_loop f c fl st tr s = (Ok (o, c', tr'), s') ->
    nf s' /\
    match o with
    | SkSome => c' = c /\ exists ds tr1, rem s = ds ++ rem s' /\ tr' = tr ++ tr1 /\ accepts fl tr1 = true /\
                                        LoopR (cmd c) st (lim s) ds tr1 (lim s')
    | SkNone => st = [] /\ tr' = tr /\
        ((c' = c /\ s' = s /\ cst c = Unbounded /\ (rem s = [] \/ lim s = Some 0)) \/
         (cst c = Indefinite /\ c' = with_state c Done /\
          exists lw0, rem s = 0 :: lw0 ++ rem s' /\ lenoct (cmd c) 0 lw0 /\ consumed s s' (1 + len lw0)))
    end.
Definition SA (f : nat) : Prop :=
  forall c fl st tr s o c' tr' s', nf s -> octets_ok (rem s) = true ->
    skip_after f c fl st tr s = (Ok (o, c', tr'), s') ->
    nf s' /\ o = SkSome /\ c' = c /\
    exists ds tr1, rem s = ds ++ rem s' /\ tr' = tr ++ tr1 /\ accepts fl tr1 = true /\
                   AfterR (cmd c) st (lim s) ds tr1 (lim s').

Lemma option_eq_dec_N (a b : option N) : {a = b} + {a <> b}.
Proof. decide equality. apply N.eq_dec. Qed.

Lemma SA_of_SL f : SL f -> SA (S f).
Proof.
  intros HL c fl st. induction st as [|top st IH]; intros tr s o c' tr' s' Hn Hok H.
  - rewrite skip_after_S in H. cbn [length skip_unwind] in H. unfold bind, ret in H. injection H as <- <- <- <-.
    split; [exact Hn|]. split; [reflexivity|]. split; [reflexivity|].
    exists [], []. rewrite app_nil_r. repeat split; constructor.
  - destruct s as [d l f0]. unfold nf in Hn. cbn in Hn. subst f0. cbn [rem lim] in *.
    destruct (option_eq_dec_N l (Some 0)) as [->|Hl].
    + destruct top as [lr|].
      * rewrite skip_after_pop in H.
        destruct (IH tr (mkSrc d lr None) o c' tr' s' eq_refl Hok H) as (Hn' & Ho & Hc & ds & tr1 & Hr & Ht & Ha & HA).
        split; [exact Hn'|]. split; [exact Ho|]. split; [exact Hc|].
        exists ds, tr1. cbn [rem lim] in *. repeat split; try assumption. constructor. exact HA.
      * rewrite skip_after_S in H. cbn [length skip_unwind] in H. unfold bind at 1 in H. unfold bind at 1 in H.
        unfold get_lim in H. cbn [lim] in H. discriminate.
    + rewrite skip_after_open in H by exact Hl.
      destruct (HL c fl (top :: st) tr (mkSrc d l None) o c' tr' s' eq_refl Hok H) as (Hn' & Ho).
      split; [exact Hn'|]. destruct o; [destruct Ho as (E & _); discriminate|].
      destruct Ho as (Hc & ds & tr1 & Hr & Ht & Ha & HLp). split; [reflexivity|]. split; [exact Hc|].
      exists ds, tr1. cbn [rem lim] in *. repeat split; try assumption.
      inversion HLp as [st0 l0 t dd ds0 tr0 lf0 He Hg HA|st0 l0 lw0 ds0 tr0 lf0 Hlw Hg HA]; subst.
      * rewrite len_stack_cons. apply A_child; assumption.
      * apply A_eoc; assumption.
Qed.

Ltac app_norm := repeat (rewrite <- app_assoc || rewrite <- app_comm_cons).

Lemma SL_step f : SL f -> SA f -> SL (S f).
Proof.
  intros HL HA c fl st tr s o c' tr' s' Hn Hok H.
  destruct (skip_loop_inv f c fl st tr s (o, c', tr') s' Hn Hok H)
    as [(-> & Hu & Hr & -> & He)|(tg & k & lw & v & r2 & Hleg & Hrem & Hspec & Hlg & Ht)].
  { injection Hr as -> -> ->. split; [exact Hn|]. split; [reflexivity|]. split; [reflexivity|]. left. auto. }
  set (a := len (tag_write k tg) + len lw) in *.
  assert (Hok2 : octets_ok r2 = true).
  { rewrite Hrem in Hok. apply octets_ok_app_r in Hok. apply octets_ok_app_r in Hok. exact Hok. }
  assert (Hn2 : nf (mkSrc r2 (lim_sub (lim s) a) None)) by reflexivity.
  unfold skip_tail in Ht.
  destruct k; cbn [negb] in Ht.
  - (* constructed *)
    destruct (tag_eqb tg END_OF_VALUE) eqn:He; [discriminate|].
    destruct v as [n|].
    + destruct (mode_eqb (cmd c) Cer) eqn:Ecer; [discriminate|].
      destruct (fl tg true (len st)) eqn:Efl; [|discriminate]. cbn [negb] in Ht.
      apply bind_ok_inv in Ht as (ol & s3 & H3 & Ht). unfold get_lim in H3. injection H3 as <- <-.
      assert (Hlen : lenoct (cmd c) n lw) by (intro r'; eapply length_spec_indep; eauto).
      assert (Hfin : forall lr, (match lim_sub (lim s) a with Some li => n <= li /\ lr = Some (li - n) | None => lr = None end) ->
                skip_after f c fl (Some lr :: st) (tr ++ [(tg, true, len st)]) (mkSrc r2 (Some n) None) = (Ok (o, c', tr'), s') ->
                nf s' /\ o = SkSome /\ c' = c /\
                exists ds tr1, rem s = ds ++ rem s' /\ tr' = tr ++ tr1 /\ accepts fl tr1 = true /\
                               LoopR (cmd c) st (lim s) ds tr1 (lim s')).
      { intros lr Hlr Hsk.
        destruct (HA c fl _ _ (mkSrc r2 (Some n) None) o c' tr' s' eq_refl Hok2 Hsk)
          as (Hn' & Ho & Hc & ds & tr1 & Hr & Htr & Hacc & HAf). cbn [rem lim] in *.
        destruct (frame_split_def _ _ _ _ _ _ HAf lr st n eq_refl eq_refl)
          as (kids & body & ds' & tr2 & -> & Hk & Hb & -> & HA2).
        split; [exact Hn'|]. split; [exact Ho|]. split; [exact Hc|].
        exists ((tag_write true tg ++ lw ++ body) ++ ds'), (trace_of (TCons tg kids) (len st) ++ tr2).
        split; [rewrite Hrem, Hr; app_norm; reflexivity|].
        split; [rewrite Htr, trace_cons; app_norm; reflexivity|].
        split.
        { rewrite trace_cons. cbn [app accepts forallb]. rewrite Efl. cbn [andb]. exact Hacc. }
        apply L_child.
        - apply E_def; try assumption; [intro Em; rewrite Em in Ecer; discriminate|rewrite Hb; exact Hlen].
        - rewrite !len_app, Hb. fold a.
          destruct (lim s) as [x|]; cbn [lim_ge lim_sub] in *; [destruct Hlr; lia|trivial].
        - rewrite !len_app, Hb.
          replace (len (tag_write true tg) + (len lw + n)) with (a + n) by (unfold a; lia).
          rewrite <- lim_sub_sub.
          destruct (lim_sub (lim s) a) as [li|]; cbn [lim_sub]; [destruct Hlr as [_ ->]|subst lr]; exact HA2. }
      cbn [lim] in Ht.
      destruct (lim_sub (lim s) a) as [li|] eqn:El2.
      * destruct (li <? n) eqn:Eli; [discriminate|].
        apply bind_ok_inv in Ht as ([] & s4 & H4 & Ht). unfold set_limit in H4. cbn [rem flt] in H4. injection H4 as <-.
        destruct (Hfin (Some (li - n)) ltac:(split; [lia|reflexivity]) Ht) as (Hn' & -> & Hc & X).
        split; [exact Hn'|]. split; [exact Hc|exact X].
      * apply bind_ok_inv in Ht as ([] & s4 & H4 & Ht). unfold set_limit in H4. cbn [rem flt] in H4. injection H4 as <-.
        destruct (Hfin None eq_refl Ht) as (Hn' & -> & Hc & X).
        split; [exact Hn'|]. split; [exact Hc|exact X].
    + destruct (mode_eqb (cmd c) Der) eqn:Eder; [discriminate|].
      destruct (fl tg true (len st)) eqn:Efl; [|discriminate]. cbn [negb] in Ht.
      destruct (HL c fl _ _ _ o c' tr' s' Hn2 Hok2 Ht) as (Hn' & Ho).
      split; [exact Hn'|]. destruct o; [destruct Ho as (E & _); discriminate|].
      destruct Ho as (Hc & ds & tr1 & Hr & Htr & Hacc & HLp). split; [exact Hc|].
      destruct (frame_split_indef _ _ _ _ _ _ HLp) as (kids & body & lw0 & ds' & tr2 & -> & Hk & Hlw0 & Hg & -> & HA2).
      pose proof (spec_indef_inv _ _ _ Hspec) as ->.
      cbn [rem lim] in *.
      assert (Hl128 : len (tag_write true tg ++ [128] ++ body ++ 0 :: lw0) = a + (len body + 1 + len lw0)).
      { unfold a. rewrite !len_app, !len_cons. change (len (@nil N)) with 0. lia. }
      exists ((tag_write true tg ++ [128] ++ body ++ 0 :: lw0) ++ ds'), (trace_of (TCons tg kids) (len st) ++ tr2).
      split; [rewrite Hrem, Hr; app_norm; reflexivity|].
      split; [rewrite Htr, trace_cons; app_norm; reflexivity|].
      split.
      { rewrite trace_cons. cbn [app accepts forallb]. rewrite Efl. cbn [andb]. exact Hacc. }
      apply L_child.
      * apply E_indef; try assumption. intro Em. rewrite Em in Eder. discriminate.
      * rewrite Hl128. destruct (lim s) as [x|]; cbn [lim_ge lim_sub] in *; [lia|trivial].
      * rewrite Hl128, <- lim_sub_sub. exact HA2.
  - (* primitive, or the end-of-contents of the innermost open value *)
    destruct (tag_eqb tg END_OF_VALUE) eqn:He.
    + destruct (negb (length_is_zero v)) eqn:Ez; [discriminate|].
      apply negb_false_iff in Ez. apply length_is_zero_inv in Ez. subst v.
      apply tag_eqb_eq in He. subst tg. change (tag_write false END_OF_VALUE) with [0] in *.
      assert (Ha1 : a = 1 + len lw) by (unfold a; change (len [0]) with 1; reflexivity).
      assert (Hlw0 : lenoct (cmd c) 0 lw) by (intro r'; eapply length_spec_indep; eauto).
      destruct st as [|[x|] st'].
      * destruct (cst c) eqn:Ec; try discriminate. injection Ht as <- <- <- <-.
        split; [reflexivity|]. split; [reflexivity|]. split; [reflexivity|]. right.
        split; [reflexivity|]. split; [reflexivity|]. exists lw. cbn [rem lim app].
        split; [exact Hrem|]. split; [exact Hlw0|]. unfold consumed. cbn [lim]. rewrite Ha1 in *. auto.
      * discriminate.
      * destruct (HA c fl st' tr _ o c' tr' s' Hn2 Hok2 Ht) as (Hn' & -> & Hc & ds & tr1 & Hr & Htr & Hacc & HAf).
        split; [exact Hn'|]. split; [exact Hc|]. cbn [rem lim] in *.
        exists (0 :: lw ++ ds), tr1. split; [rewrite Hrem, Hr; app_norm; reflexivity|]. split; [exact Htr|]. split; [exact Hacc|].
        rewrite Ha1 in *. apply L_eoc; assumption.
    + destruct v as [n|]; [|discriminate].
      destruct (fl tg false (len st)) eqn:Efl; [|discriminate]. cbn [negb] in Ht.
      set (s2 := mkSrc r2 (lim_sub (lim s) a) None) in *.
      assert (Hna : exists s3, (need n ;;; advance n) s2 = (Ok tt, s3) /\
                               skip_after f c fl st (tr ++ [(tg, false, len st)]) s3 = (Ok (o, c', tr'), s')).
      { unfold bind in Ht |- *. destruct (need n s2) as [[[]| | | |] sa]; try discriminate.
        destruct (advance n sa) as [[[]| | | |] sb]; try discriminate. exists sb. auto. }
      destruct Hna as (s3 & Hna & Hsk).
      destruct (need_advance_inv n s2 s3 Hn2 Hna) as (b & Hb & Hlb & Hgb & Hs3). unfold s2 in *. cbn [rem lim] in *.
      assert (Hok3 : octets_ok (rem s3) = true) by (rewrite Hb in Hok2; apply octets_ok_app_r in Hok2; exact Hok2).
      assert (Hn3 : nf s3) by (rewrite Hs3; reflexivity).
      destruct (HA c fl st _ s3 o c' tr' s' Hn3 Hok3 Hsk) as (Hn' & -> & Hc & ds & tr1 & Hr & Htr & Hacc & HAf).
      split; [exact Hn'|]. split; [exact Hc|].
      exists ((tag_write false tg ++ lw ++ b) ++ ds), (trace_of (TPrim tg b) (len st) ++ tr1).
      split; [rewrite Hrem, Hb, Hr; app_norm; reflexivity|].
      split; [rewrite Htr; cbn [trace_of]; app_norm; reflexivity|].
      split; [cbn [trace_of app accepts forallb]; rewrite Efl; exact Hacc|].
      assert (Hlen : lenoct (cmd c) (len b) lw) by (rewrite Hlb; intro r'; eapply length_spec_indep; eauto).
      assert (Hld : len (tag_write false tg ++ lw ++ b) = a + n) by (unfold a; rewrite !len_app, Hlb; lia).
      apply L_child.
      * apply E_prim; assumption.
      * rewrite Hld. destruct (lim s) as [x|]; cbn [lim_ge lim_sub] in *; [lia|trivial].
      * rewrite Hld, <- lim_sub_sub. rewrite Hs3 in HAf. cbn [lim] in HAf. exact HAf.
Qed.

Theorem skip_sound f : SL f /\ SA f.
Proof.
  induction f as [|f [IL IA]].
  - split; intros c fl st tr s o c' tr' s' _ _ H; discriminate.
  - split; [apply SL_step; assumption|apply SA_of_SL; assumption].
Qed.

(* skip_opt that reports a value has skipped exactly one well-formed value *)
Theorem skipped_is_wellformed fuel c fl s c' tr' s' :
  nf s -> octets_ok (rem s) = true ->
  skip_opt fuel c fl s = (Ok (SkSome, c', tr'), s') ->
  c' = c /\ exists t d, GrammarP.enc (cmd c) t d /\ rem s = d ++ rem s' /\
                       consumed s s' (len d) /\ tr' = trace_of t 0 /\ accepts fl tr' = true.
Proof.
  intros Hn Hok H. unfold skip_opt in H. apply bind_ok_inv in H as (ex & s0 & H0 & H).
  pose proof (is_exhausted_state _ _ _ _ H0) as ->. destruct ex; [discriminate|].
  destruct (proj1 (skip_sound fuel) c fl [] [] s SkSome c' tr' s' Hn Hok H) as (Hn' & Hc & ds & tr1 & Hr & Htr & Hacc & HLp).
  split; [exact Hc|]. cbn [app] in Htr. subst tr'.
  inversion HLp as [st0 l0 t d ds0 tr0 lf0 He Hg HAf|]; subst.
  inversion HAf; subst. exists t, d. rewrite !app_nil_r in *.
  split; [exact He|]. split; [exact Hr|]. split; [split; [symmetry; assumption|exact Hg]|]. auto.
Qed.

(* ====================================================================== *)
(* skipping and reading agree                                              *)
(* ====================================================================== *)
Lemma src_eta s : nf s -> s = mkSrc (rem s) (lim s) None.
Proof. destruct s as [d l f]. unfold nf. cbn. intros ->. reflexivity. Qed.

Lemma accepts_all tr : accepts accept_all tr = true.
Proof. induction tr as [|[[t k] d] r IH]; [reflexivity|]. cbn. exact IH. Qed.

(* what skipping accepts, reading accepts: the same value, the same octets,
   the same position afterwards; the filter saw the value's nodes in order *)
Theorem skip_then_read fuel c fl s c' tr s' :
  nf s -> octets_ok (rem s) = true -> may_start c (lim s) ->
  skip_opt fuel c fl s = (Ok (SkSome, c', tr), s') ->
  exists t, tr = trace_of t 0 /\ forall f2, (size t <= f2)%nat ->
    process_next_value c None (rd f2) s = (Ok (Some t, c), s').
Proof.
  intros Hn Hok Hst H.
  assert (Hn' : nf s').
  { unfold skip_opt in H. apply bind_ok_inv in H as (ex & s0 & H0 & H).
    pose proof (is_exhausted_state _ _ _ _ H0) as ->. destruct ex; [discriminate|].
    apply (proj1 (skip_sound fuel) c fl [] [] s SkSome c' tr s' Hn Hok H). }
  destruct (skipped_is_wellformed fuel c fl s c' tr s' Hn Hok H) as (-> & t & d & He & Hr & [Hc Hg] & Htr & _).
  exists t. split; [exact Htr|]. intros f2 Hf2.
  rewrite (src_eta s Hn) at 1. rewrite Hr.
  rewrite (proj1 (grammar_complete (cmd c)) t d He f2 c (rem s') (lim s) Hf2 eq_refl ltac:(rewrite <- Hr; exact Hok) Hg Hst).
  rewrite (src_eta s' Hn') at 2. rewrite Hc. reflexivity.
Qed.

(* what reading accepts, skipping accepts, with the same effect *)
Theorem read_then_skip f c s t c' s' fuel :
  nf s -> octets_ok (rem s) = true -> may_start c (lim s) ->
  process_next_value c None (rd f) s = (Ok (Some t, c'), s') ->
  (2 * length (rem s) < fuel)%nat ->
  skip_opt fuel c accept_all s = (Ok (SkSome, c, trace_of t 0), s').
Proof.
  intros Hn Hok Hst H Hf.
  destruct (value_sound f (grammar_sound f) c s t c' s' Hn Hok H) as (Hn' & -> & d & He & Hr & [Hc Hg]).
  rewrite (src_eta s Hn) at 1. rewrite Hr.
  rewrite (wellformed_is_skipped (cmd c) t d c accept_all (rem s') (lim s) fuel He eq_refl
             ltac:(rewrite <- Hr; exact Hok) Hg Hst (accepts_all _)
             ltac:(rewrite Hr, app_length in Hf; lia)).
  rewrite (src_eta s' Hn') at 2. rewrite Hc. reflexivity.
Qed.

(* absence: skipping reports "no value" exactly where an optional read does *)
Lemma tag_opt_at_end s : nf s -> rem s = [] \/ lim s = Some 0 -> tag_take_opt_from s = (Ok None, s).
Proof.
  intros Hn He. unfold tag_take_opt_from, bind at 1, take_opt_u8, bind at 1. rewrite (tick_nf s Hn).
  destruct He as [He|He]; rewrite He.
  - destruct (lim s) as [[|p]|]; reflexivity.
  - reflexivity.
Qed.

Theorem skip_absent_like_read fuel f c fl s c' tr s' :
  nf s -> octets_ok (rem s) = true ->
  skip_opt fuel c fl s = (Ok (SkNone, c', tr), s') ->
  process_next_value c None (rd f) s = (Ok (None, c'), s').
Proof.
  intros Hn Hok H. unfold skip_opt in H.
  apply bind_ok_inv in H as (ex & s0 & H0 & H).
  pose proof (is_exhausted_state _ _ _ _ H0) as ->.
  destruct ex.
  { injection H as <- <- <-. unfold process_next_value. rewrite (bind_ok _ _ _ _ _ H0). reflexivity. }
  destruct (proj1 (skip_sound fuel) c fl [] [] s SkNone c' tr s' Hn Hok H) as (Hn' & _ & _ & X).
  destruct X as [(-> & -> & Hu & He)|(Hi & -> & lw0 & Hr & Hlw & [Hc Hg])].
  - unfold process_next_value. rewrite (bind_ok _ _ _ _ _ H0). cbv iota. rewrite Hu. cbn [cstate_eqb].
    rewrite (bind_ok _ _ _ _ _ (tag_opt_at_end s Hn He)). reflexivity.
  - rewrite (src_eta s Hn) at 1. rewrite Hr.
    change (0 :: lw0 ++ rem s') with (tag_write false END_OF_VALUE ++ lw0 ++ rem s').
    assert (Htw : len (tag_write false END_OF_VALUE) = 1) by reflexivity.
    rewrite (pnv_header c (rd f) END_OF_VALUE false lw0 (Definite_ 0) (rem s') (lim s) legal_eov
               ltac:(rewrite Hr in Hok; exact Hok) (Hlw (rem s')) ltac:(rewrite Htw; exact Hg)
               ltac:(unfold may_start; rewrite Hi; exact I)).
    unfold pnv_tail. change (tag_eqb END_OF_VALUE END_OF_VALUE) with true. cbv iota. rewrite Hi.
    cbn [length_is_zero N.eqb negb]. unfold ret. rewrite Htw, <- Hc. rewrite <- (src_eta s' Hn'). reflexivity.
Qed.
