(* Proofs about Model/Encode.v (property C06, parts of C04/C05). *)
From Coq Require Import Lia ZifyBool ZifyN.
Require Import BV.Model.Base BV.Model.SrcB BV.Model.Length BV.Model.Tag BV.Model.Content
               BV.Model.OctStr BV.Model.Encode.
Require Import BV.Proofs.Bits BV.Proofs.SrcBP BV.Proofs.LengthP.
Ltac Zify.zify_post_hook ::= Z.div_mod_to_equations.
Arguments N.add : simpl never. Arguments N.sub : simpl never.
Arguments N.ltb : simpl never. Arguments N.leb : simpl never. Arguments N.eqb : simpl never.

(* ---------- an induction principle that reaches into ESeq ---------- *)
Fixpoint enc_ind' (P : enc -> Prop)
    (HPrim : forall t c, P (EPrim t c))
    (HCons : forall t e, P e -> P (ECons t e))
    (HSeq : forall es, Forall P es -> P (ESeq es))
    (HOptN : P (EOpt None))
    (HOptS : forall e, P e -> P (EOpt (Some e)))
    (HChoice : forall e, P e -> P (EChoice e))
    (HNothing : P ENothing)
    (HCaptured : forall cm b, P (ECaptured cm b))
    (HOctStr : forall t o, P (EOctStr t o))
    (HOctSlice : forall t c, P (EOctSlice t c))
    (HBitSlice : forall t u c, P (EBitSlice t u c))
    (HWrapped : forall wm e, P e -> P (EWrapped wm e))
    (e : enc) {struct e} : P e :=
  let rec := enc_ind' P HPrim HCons HSeq HOptN HOptS HChoice HNothing HCaptured HOctStr
                      HOctSlice HBitSlice HWrapped in
  match e with
  | EPrim t c => HPrim t c
  | ECons t x => HCons t x (rec x)
  | ESeq es => HSeq es ((fix go (l : list enc) : Forall P l :=
                           match l with
                           | [] => Forall_nil P
                           | x :: r => Forall_cons x (rec x) (go r)
                           end) es)
  | EOpt None => HOptN
  | EOpt (Some x) => HOptS x (rec x)
  | EChoice x => HChoice x (rec x)
  | ENothing => HNothing
  | ECaptured cm b => HCaptured cm b
  | EOctStr t o => HOctStr t o
  | EOctSlice t c => HOctSlice t c
  | EBitSlice t u c => HBitSlice t u c
  | EWrapped wm x => HWrapped wm x (rec x)
  end.

(* ---------- leaves ---------- *)
Lemma tag_len_any t k : tag_encoded_len t = len (tag_write k t).
Proof.
  unfold tag_write. destruct t as [[[a b] c0] d]. unfold tag_encoded_len.
  destruct (negb (N.land 31 a =? 31)); [reflexivity|].
  destruct (N.land 128 b =? 0); [reflexivity|]. destruct (N.land 128 c0 =? 0); reflexivity.
Qed.

Lemma length_len_write n :
  length_encoded_len n = res_map (@len N) (length_write n).
Proof.
  destruct (length_write n) as [w| | | |] eqn:E.
  - rewrite (length_encoded_len_correct n w E). reflexivity.
  - unfold length_write in E. repeat match type of E with context [if ?c then _ else _] => destruct c end; discriminate.
  - unfold length_write in E. repeat match type of E with context [if ?c then _ else _] => destruct c end; discriminate.
  - unfold length_write, length_encoded_len in *.
    repeat match type of E with context [if ?c then _ else _] => destruct c eqn:? end; try discriminate. reflexivity.
  - unfold length_write in E. repeat match type of E with context [if ?c then _ else _] => destruct c end; discriminate.
Qed.

Lemma tlv_len_write t k c : tlv_len t (len c) = res_map (@len N) (tlv_write t k c).
Proof.
  unfold tlv_len, tlv_write. rewrite length_len_write.
  destruct (length_write (len c)) as [w| | | |]; cbn [res_map]; try reflexivity.
  rewrite !len_app, (tag_len_any t k). first [reflexivity | f_equal; lia].
Qed.

Lemma os_len_write m t o : os_encoded_len m t o = res_map (@len N) (os_encode m t o).
Proof.
  unfold os_encoded_len, os_encode, write_hdr. destruct m; [|reflexivity|].
  - destruct o as [b|d]; rewrite length_len_write;
      destruct (length_write _) as [w| | | |]; cbn [res_map]; try reflexivity; rewrite !len_app.
    + rewrite (tag_len_any t false). first [reflexivity | f_equal; lia].
    + rewrite (tag_len_any t true). first [reflexivity | f_equal; lia].
  - unfold os_len. destruct (os_octets o) as [c| | | |]; cbn [res_map]; try reflexivity.
    rewrite length_len_write. destruct (length_write (len c)) as [w| | | |]; cbn [res_map]; try reflexivity.
    rewrite !len_app, (tag_len_any t false). first [reflexivity | f_equal; lia].
Qed.

(* ---------- C06: announced length = octets written, for every tree ---------- *)
Theorem enc_len_is_written m e : enc_len m e = res_map (@len N) (enc_write m e).
Proof.
  revert m. induction e using enc_ind'; intro m; cbn [enc_len enc_write].
  - apply tlv_len_write.
  - rewrite IHe. destruct m.
    + destruct (enc_write Ber e) as [b| | | |]; cbn [res_map res_bind]; try reflexivity.
      rewrite length_len_write. destruct (length_write (len b)) as [w| | | |]; cbn [res_map res_bind]; try reflexivity.
      rewrite !len_app, (tag_len_any t true). first [reflexivity | f_equal; lia].
    + destruct (enc_write Cer e) as [b| | | |]; cbn [res_map res_bind]; try reflexivity.
      rewrite !len_app, (tag_len_any t true). cbn [len length N.of_nat]. first [reflexivity | f_equal; lia].
    + destruct (enc_write Der e) as [b| | | |]; cbn [res_map res_bind]; try reflexivity.
      rewrite length_len_write. destruct (length_write (len b)) as [w| | | |]; cbn [res_map res_bind]; try reflexivity.
      rewrite !len_app, (tag_len_any t true). first [reflexivity | f_equal; lia].
  - induction H as [|x r Hx Hr IH]; [reflexivity|].
    rewrite Hx. destruct (enc_write m x) as [a| | | |]; cbn [res_map res_bind]; try reflexivity.
    rewrite IH.
    match goal with |- context [res_map _ (?g r)] => destruct (g r) as [b| | | |] end;
      cbn [res_map]; try reflexivity.
    rewrite len_app. reflexivity.
  - reflexivity.
  - apply IHe.
  - apply IHe.
  - reflexivity.
  - destruct (negb (mode_eqb cm m) && negb (mode_eqb m Ber)); reflexivity.
  - apply os_len_write.
  - destruct (mode_eqb m Cer); [reflexivity|apply tlv_len_write].
  - destruct (mode_eqb m Cer); [reflexivity|].
    replace (len c + 1) with (len (u :: c)) by (rewrite len_cons; lia). apply tlv_len_write.
  - destruct (mode_eqb m Cer); [reflexivity|]. rewrite IHe.
    destruct (enc_write wm e) as [b| | | |] eqn:E; cbn [res_map res_bind]; try reflexivity.
    unfold tlv_len. rewrite length_len_write.
    destruct (length_write (len b)) as [w| | | |]; cbn [res_map res_bind]; try reflexivity.
    rewrite !len_app. change (tag_encoded_len T_OCTET_STRING) with 1.
    change (len (tag_write false T_OCTET_STRING)) with 1. first [reflexivity | f_equal; lia].
Qed.

Corollary enc_len_ok_iff m e n :
  enc_len m e = Ok n <-> exists w, enc_write m e = Ok w /\ len w = n.
Proof.
  rewrite enc_len_is_written. destruct (enc_write m e) as [w| | | |]; cbn [res_map]; split;
    try discriminate; try (intros (w' & H & _); discriminate).
  - intros [= <-]. exists w. split; reflexivity.
  - intros (w' & [= <-] & <-). reflexivity.
Qed.

(* structure: a constructed value is identifier + (definite: shortest length
   of the body | CER: 0x80 ... 00 00) + body; a sequence of parts is the
   concatenation of the parts' encodings in order *)
Theorem enc_write_cons m t e b : enc_write m e = Ok b -> len b < 2^32 ->
  enc_write m (ECons t e) =
    Ok (tag_write true t ++
        match m with
        | Cer => [128] ++ b ++ [0; 0]
        | _ => match length_write (len b) with Ok lw => lw ++ b | _ => [] end
        end)
  /\ (m <> Cer -> exists lw, length_write (len b) = Ok lw /\ min_len_ok lw = true /\ len_value lw = len b).
Proof.
  intros Hb Hlt. cbn [enc_write]. rewrite enc_len_is_written, Hb. cbn [res_map res_bind].
  destruct (length_write_total (len b) Hlt) as (lw & Hlw).
  destruct (length_write_minimal _ _ Hlw) as [Hmin Hval].
  split.
  - destruct m; cbn [res_map res_bind]; rewrite ?Hlw; reflexivity.
  - intros _. exists lw. repeat split; assumption.
Qed.

Theorem enc_write_seq m es :
  enc_write m (ESeq es) =
    fold_right (fun x acc => res_bind (enc_write m x) (fun a => res_map (fun b => a ++ b) acc)) (Ok []) es.
Proof. induction es as [|x r IH]; [reflexivity|]. cbn [enc_write fold_right] in *. rewrite <- IH. reflexivity. Qed.
