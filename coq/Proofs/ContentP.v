(* Proofs about Model/Content.v (properties C09, C02, C10, C11). *)
From Coq Require Import Lia ZifyBool ZifyN.
Require Import BV.Model.Base BV.Model.SrcB BV.Model.Length BV.Model.Tag BV.Model.Content.
Require Import BV.Proofs.Bits BV.Proofs.SrcBP BV.Proofs.LengthP BV.Proofs.TagP.
Ltac Zify.zify_post_hook ::= Z.div_mod_to_equations.
Arguments N.add : simpl never. Arguments N.sub : simpl never.
Arguments N.ltb : simpl never. Arguments N.leb : simpl never. Arguments N.eqb : simpl never.

(* ---------- inversion of bind ---------- *)
Lemma bind_ok_inv {A B} (m : M A) (f : A -> M B) s b s' :
  bind m f s = (Ok b, s') -> exists a s1, m s = (Ok a, s1) /\ f a s1 = (Ok b, s').
Proof.
  unfold bind. destruct (m s) as [[a| | | |] s1]; try discriminate. intro H. eauto.
Qed.

(* fault-free states stay fault-free *)
Definition nf (s : src) : Prop := flt s = None.

Lemma tick_nf s : nf s -> tick s = (Ok tt, s).
Proof. unfold nf, tick. intros ->. reflexivity. Qed.

(* ---------- C09: absence consumes nothing ---------- *)
(* "s' is s advanced over exactly one end-of-contents marker in mode m" *)
Definition eoc_consumed (m : mode) (s s' : src) : Prop :=
  exists s1, tag_take_from s = (Ok (END_OF_VALUE, false), s1) /\
             length_take_from m s1 = (Ok (Definite_ 0), s').

Lemma tag_eqb_true a b : tag_eqb a b = true -> a = b.
Proof. apply tag_eqb_eq. Qed.

Lemma length_is_zero_inv l : length_is_zero l = true -> l = Definite_ 0.
Proof. destruct l as [[|p]|]; cbn; congruence. Qed.

Lemma take_opt_u8_none s s' : nf s -> take_opt_u8 s = (Ok None, s') -> s' = s.
Proof.
  intros Hf. unfold take_opt_u8. rewrite (bind_ok tick _ _ tt s) by (apply tick_nf; exact Hf).
  destruct (lim s) as [[|p]|], (rem s); intros [= <-] || discriminate; reflexivity.
Qed.

Lemma tag_take_opt_from_none s s' : nf s -> tag_take_opt_from s = (Ok None, s') -> s' = s.
Proof.
  intros Hf H. unfold tag_take_opt_from in H. apply bind_ok_inv in H as (ob & s1 & H1 & H2).
  destruct ob as [b|].
  - exfalso. destruct (N.land (clear_cons b) 31 =? 31); [|discriminate].
    apply bind_ok_inv in H2 as (d1 & s2 & _ & H2).
    destruct ((d1 =? 128) || (d1 <=? 30)); [discriminate|]. destruct (N.land d1 128 =? 0); [discriminate|].
    apply bind_ok_inv in H2 as (d2 & s3 & _ & H2). destruct (N.land d2 128 =? 0); [discriminate|].
    apply bind_ok_inv in H2 as (d3 & s4 & _ & H2). destruct (N.land d3 128 =? 0); discriminate.
  - injection H2 as <-. apply take_opt_u8_none in H1; assumption.
Qed.

Lemma is_exhausted_state c s r s0 : is_exhausted c s = (r, s0) -> s0 = s.
Proof.
  unfold is_exhausted, bind, get_lim, ret, panic.
  destruct (cst c); try (intros [= _ <-]; reflexivity).
  destruct (lim s); intros [= _ <-]; reflexivity.
Qed.

(* A read that reports absence - with or without an expected tag - has
   consumed nothing, apart from the end-of-contents marker that closes an
   indefinite enclosing value (whose state then becomes Done). *)
Theorem absent_consumes_nothing {T} c exp (op : tag -> content -> M (T * content)) s c' s' :
  nf s -> process_next_value c exp op s = (Ok (None, c'), s') ->
  (s' = s /\ c' = c) \/
  (cst c = Indefinite /\ c' = with_state c Done /\
   match exp with
   | None => eoc_consumed (cmd c) s s'
   | Some e => e = END_OF_VALUE /\
               exists s1, tag_take_from_if e s = (Ok (Some false), s1) /\
                          length_take_from (cmd c) s1 = (Ok (Definite_ 0), s')
   end).
Proof.
  intros Hf H. unfold process_next_value in H.
  apply bind_ok_inv in H as (ex & s0 & Hex & H).
  assert (s0 = s) as -> by (eapply is_exhausted_state; eassumption).
  destruct ex; [injection H as <- <-; left; split; reflexivity|].
  apply bind_ok_inv in H as (hdr & s1 & Hh & H).
  destruct hdr as [[t k]|].
  2:{ (* no header: absent without consuming *)
      injection H as <- <-. left. split; [|reflexivity].
      destruct exp as [e|].
      - apply bind_ok_inv in Hh as (o & s2 & Ho & Hr). destruct o as [kk|]; [discriminate|].
        injection Hr as <-.
        destruct (tag_take_from_if_untouched_gen e s (Ok None) s2 Hf Ho) as [-> _]; [discriminate|reflexivity].
      - destruct (cstate_eqb (cst c) Unbounded).
        + apply tag_take_opt_from_none in Hh; assumption.
        + apply bind_ok_inv in Hh as (r & s2 & _ & Hr). discriminate. }
  apply bind_ok_inv in H as (l & s2 & Hl & H).
  destruct (tag_eqb t END_OF_VALUE) eqn:Et.
  - (* end-of-contents *)
    apply tag_eqb_true in Et. subst t.
    destruct (cst c) eqn:Ec; try discriminate.
    destruct k; [discriminate|].
    destruct (length_is_zero l) eqn:Ez; [|discriminate]. cbn [negb] in H.
    injection H as <- <-. apply length_is_zero_inv in Ez. subst l.
    right. split; [reflexivity|]. split; [reflexivity|].
    destruct exp as [e|].
    + apply bind_ok_inv in Hh as (o & s3 & Ho & Hr). destruct o as [kk|]; [|discriminate].
      injection Hr as -> -> ->. split; [reflexivity|]. exists s1. split; assumption.
    + cbn [cstate_eqb] in Hh.
      apply bind_ok_inv in Hh as (r & s3 & Hr & Hr2). injection Hr2 as -> ->.
      exists s1. split; assumption.
  - (* a value: the result is never None *)
    exfalso. destruct l as [n|].
    + apply bind_ok_inv in H as (sx & s3 & _ & H).
      apply bind_ok_inv in H as (u1 & s4 & _ & H).
      apply bind_ok_inv in H as (u2 & s5 & _ & H).
      apply bind_ok_inv in H as (u3 & s6 & _ & H).
      apply bind_ok_inv in H as (rc & s7 & _ & H). destruct rc as [r ct'].
      apply bind_ok_inv in H as (u4 & s8 & _ & H).
      apply bind_ok_inv in H as (u5 & s9 & _ & H). discriminate.
    + destruct (negb k || mode_eqb (cmd c) Der); [discriminate|].
      apply bind_ok_inv in H as (rc & s7 & _ & H). destruct rc as [r ct'].
      apply bind_ok_inv in H as (u4 & s8 & _ & H). discriminate.
Qed.

(* tag-selective read: when the next identifier differs from the expected tag
   the read reports absence and leaves the source untouched, in every context *)
Theorem tagged_mismatch_is_absent {T} c e (op : tag -> content -> M (T * content)) s t k n :
  nf s -> fst (is_exhausted c s) = Ok false ->
  peek_tag (visible s) = Some (Some (t, k, n)) -> tag_eqb t e = false ->
  process_next_value c (Some e) op s = (Ok (None, c), s).
Proof.
  intros Hf Hex Hp Hne. unfold process_next_value.
  assert (E : is_exhausted c s = (Ok false, s)).
  { destruct (is_exhausted c s) as [r0 s0] eqn:E0. cbn in Hex. subst r0.
    apply is_exhausted_state in E0 as E1. subst s0. reflexivity. }
  rewrite (bind_ok _ _ _ false s E). cbv iota.
  rewrite (bind_ok _ _ _ None s); [reflexivity|].
  rewrite (bind_ok _ _ _ None s); [reflexivity|].
  rewrite (tag_take_from_if_peek_gen e s Hf), Hp, Hne. reflexivity.
Qed.

(* the mandatory variants turn absence into an error *)
Theorem mandatory_absent_is_error {T} (m : M (option T * cons)) s c s' :
  m s = (Ok (None, c), s') -> mandatory m s = (CErr, s').
Proof. intro H. unfold mandatory. rewrite (bind_ok _ _ _ _ _ H). reflexivity. Qed.
Theorem mandatory_present {T} (m : M (option T * cons)) s v c s' :
  m s = (Ok (Some v, c), s') -> mandatory m s = (Ok (v, c), s').
Proof. intro H. unfold mandatory. rewrite (bind_ok _ _ _ _ _ H). reflexivity. Qed.

(* at the top level the end of the input is the end of the values *)
Theorem top_level_end_is_absent {T} m (op : tag -> content -> M (T * content)) :
  process_next_value (mkCons Unbounded m) None op (pure_src [] None)
  = (Ok (None, mkCons Unbounded m), pure_src [] None).
Proof. reflexivity. Qed.

(* ====================================================================== *)
(* C02 / C09: what one header-processing step accepts and delivers         *)
(* ====================================================================== *)
Definition cons_open (c : cons) (s : src) : Prop :=
  match cst c with
  | Done => False
  | Definite => exists l, lim s = Some l /\ l <> 0
  | _ => True
  end.

Lemma is_exhausted_open c s : cons_open c s -> is_exhausted c s = (Ok false, s).
Proof.
  unfold cons_open, is_exhausted, bind, get_lim, ret. destruct (cst c); try tauto; try reflexivity.
  intros (l & -> & Hl). destruct l; [congruence|reflexivity].
Qed.

Lemma tag_take_opt_from_write cls n t k r l : is_class cls -> tag_new cls n = Ok t ->
  lim_ge l (len (tag_write k t)) ->
  tag_take_opt_from (mkSrc (tag_write k t ++ r) l None)
  = (Ok (Some (t, k)), mkSrc r (lim_sub l (len (tag_write k t))) None).
Proof.
  intros Hc Hn Hl. pose proof (tag_read_back cls n t k r l Hc Hn Hl) as H.
  unfold tag_take_from, bind in H.
  destruct (tag_take_opt_from (mkSrc (tag_write k t ++ r) l None)) as [[[[t0 k0]|]| | | |] s1];
    cbn in H; try discriminate. injection H as -> -> ->. reflexivity.
Qed.

(* the header of a present value: identifier, then a definite length *)
Lemma header_definite cls n t k L lw r l (c : cons) :
  is_class cls -> tag_new cls n = Ok t -> length_write L = Ok lw ->
  lim_ge l (len (tag_write k t) + len lw) ->
  let s := mkSrc (tag_write k t ++ lw ++ r) l None in
  let s2 := mkSrc r (lim_sub l (len (tag_write k t) + len lw)) None in
  (tag_take_from s = (Ok (t, k), mkSrc (lw ++ r) (lim_sub l (len (tag_write k t))) None)) /\
  (length_take_from (cmd c) (mkSrc (lw ++ r) (lim_sub l (len (tag_write k t))) None) = (Ok (Definite_ L), s2)).
Proof.
  intros Hc Hn Hw Hl. cbv zeta. split.
  - apply (tag_read_back cls n t k (lw ++ r) l Hc Hn). eapply lim_ge_mono; [|exact Hl]. lia.
  - rewrite (length_read_back L (cmd c) lw r _ Hw).
    + rewrite lim_sub_sub. reflexivity.
    + apply lim_ge_sub. exact Hl.
Qed.

(* C09 "present": when a value is present, exactly the next TLV is delivered
   to the closure - its tag, its form, and a source narrowed to its content -
   and afterwards the limit of the enclosing value is restored. Stated for
   the shortest length form (every mode reads it), untagged read. *)
Theorem present_value_delivered {T} (c : cons) (op : tag -> content -> M (T * content))
    cls n t k L lw body rest l :
  is_class cls -> tag_new cls n = Ok t -> tag_eqb t END_OF_VALUE = false ->
  length_write L = Ok lw -> len body = L ->
  lim_ge l (len (tag_write k t) + len lw + L) ->
  cons_open c (mkSrc (tag_write k t ++ lw ++ body ++ rest) l None) ->
  cst c <> Unbounded ->
  (k && mode_eqb (cmd c) Cer = false) ->
  let l1 := lim_sub l (len (tag_write k t) + len lw) in
  let ct := if k then CCons (mkCons Definite (cmd c)) else CPrim (cmd c) in
  process_next_value c None op (mkSrc (tag_write k t ++ lw ++ body ++ rest) l None)
  = (rc <- op t ct ;; let '(r, ct') := rc in
     content_exhausted ct' ;;; set_limit (lim_sub l1 L) ;;; ret (Some r, c))
    (mkSrc (body ++ rest) (Some L) None).
Proof.
  intros Hc Hn Ht Hw Hb Hl Ho Hu Hk. cbv zeta. unfold process_next_value.
  rewrite (bind_ok _ _ _ false _ (is_exhausted_open c _ Ho)). cbv iota.
  destruct (header_definite cls n t k L lw (body ++ rest) l c Hc Hn Hw
              ltac:(eapply lim_ge_mono; [|exact Hl]; lia)) as [H1 H2].
  replace (cstate_eqb (cst c) Unbounded) with false by (destruct (cst c); try reflexivity; congruence).
  assert (Hhdr : (r <- tag_take_from ;; ret (Some r))
                   (mkSrc (tag_write k t ++ lw ++ body ++ rest) l None)
                 = (Ok (Some (t, k)), mkSrc (lw ++ body ++ rest) (lim_sub l (len (tag_write k t))) None))
    by (unfold bind; rewrite H1; reflexivity).
  rewrite (bind_ok _ _ _ _ _ Hhdr).
  cbv iota beta. rewrite (bind_ok _ _ _ (Definite_ L) _ H2). rewrite Ht.
  set (l1 := lim_sub l (len (tag_write k t) + len lw)).
  unfold bind at 1. unfold get_lim at 1. cbn [lim].
  assert (Hchk : (match l1 with Some li => if li <? L then cerr else ret tt | None => ret tt end)
                   (mkSrc (body ++ rest) l1 None) = (Ok tt, mkSrc (body ++ rest) l1 None)).
  { subst l1. destruct l as [x|]; cbn [lim_sub lim_ge] in *; [|reflexivity].
    replace (x - (len (tag_write k t) + len lw) <? L) with false by lia. reflexivity. }
  rewrite (bind_ok _ _ _ tt _ Hchk).
  rewrite (bind_ok _ _ _ tt (mkSrc (body ++ rest) (Some L) None)) by reflexivity.
  rewrite Hk. rewrite (bind_ok _ _ _ tt (mkSrc (body ++ rest) (Some L) None)) by reflexivity.
  reflexivity.
Qed.

(* C02 "end-of-contents only as the terminator of an indefinite value" *)
Theorem eoc_outside_indefinite_rejected {T} (c : cons) (op : tag -> content -> M (T * content)) lw r l :
  cst c <> Indefinite -> cst c <> Unbounded ->
  cons_open c (mkSrc (0 :: lw ++ r) l None) ->
  lim_ge l (1 + len lw) ->
  length_write 0 = Ok lw ->
  fst (process_next_value c None op (mkSrc (0 :: lw ++ r) l None)) = CErr.
Proof.
  intros Hi Hu Ho Hl Hw. unfold process_next_value.
  rewrite (bind_ok _ _ _ false _ (is_exhausted_open c _ Ho)). cbv iota.
  replace (cstate_eqb (cst c) Unbounded) with false by (destruct (cst c); try reflexivity; congruence).
  assert (Hn : tag_new 0 0 = Ok END_OF_VALUE) by reflexivity.
  destruct (header_definite 0 0 END_OF_VALUE false 0 lw r l c ltac:(left; reflexivity) Hn Hw
              ltac:(exact Hl)) as [H1 H2].
  change (tag_write false END_OF_VALUE) with [0] in H1, H2. cbn [app] in H1.
  assert (Hhdr : (r0 <- tag_take_from ;; ret (Some r0)) (mkSrc (0 :: lw ++ r) l None)
                 = (Ok (Some (END_OF_VALUE, false)), mkSrc (lw ++ r) (lim_sub l (len [0])) None))
    by (unfold bind; rewrite H1; reflexivity).
  rewrite (bind_ok _ _ _ _ _ Hhdr).
  cbv iota beta. rewrite (bind_ok _ _ _ (Definite_ 0) _ H2).
  change (tag_eqb END_OF_VALUE END_OF_VALUE) with true. cbv iota.
  destruct (cst c); try reflexivity; congruence.
Qed.

(* mode rules on the form of values, for any caller closure *)
Theorem form_rules_enforced {T} (c : cons) (op : tag -> content -> M (T * content)) t k s :
  tag_eqb t END_OF_VALUE = false ->
  (* after a header (t, k) with length l has been read ... *)
  let cont := fun (l : length_) =>
    match l with
    | Definite_ n =>
        old <- get_lim ;;
        (match old with Some li => if li <? n then cerr else ret tt | None => ret tt end) ;;;
        set_limit (Some n) ;;;
        (if k && mode_eqb (cmd c) Cer then cerr else ret tt) ;;;
        let ct := if k then CCons (mkCons Definite (cmd c)) else CPrim (cmd c) in
        rc <- op t ct ;; let '(r, ct') := rc in
        content_exhausted ct' ;;; set_limit (lim_sub old n) ;;; ret (Some r, c)
    | Indefinite_ =>
        if negb k || mode_eqb (cmd c) Der then cerr else
        rc <- op t (CCons (mkCons Indefinite (cmd c))) ;; let '(r, ct') := rc in
        content_exhausted ct' ;;; ret (Some r, c)
    end in
  (* ... a primitive value with indefinite length is rejected in every mode,
     an indefinite constructed value in DER, a definite constructed one in CER,
     and a value longer than what is left of its parent in every mode *)
  (k = false -> fst (cont Indefinite_ s) = CErr) /\
  (cmd c = Der -> fst (cont Indefinite_ s) = CErr) /\
  (k = true -> cmd c = Cer -> forall n, fst (cont (Definite_ n) s) = CErr) /\
  (forall n li, lim s = Some li -> li < n -> fst (cont (Definite_ n) s) = CErr).
Proof.
  intros Ht. cbv zeta. repeat split.
  - intros ->. reflexivity.
  - intros ->. rewrite orb_true_r. reflexivity.
  - intros -> -> n. unfold bind, get_lim, set_limit, cerr. cbn [mode_eqb andb].
    destruct (lim s) as [li|]; [destruct (li <? n)|]; reflexivity.
  - intros n li Hl Hlt. unfold bind at 1. unfold get_lim. rewrite Hl.
    unfold bind at 1. replace (li <? n) with true by lia. reflexivity.
Qed.

(* ====================================================================== *)
(* C11: capture                                                            *)
(* ====================================================================== *)
Lemma firstN_app_exact {A} (p r : list A) : firstN (len p) (p ++ r) = p.
Proof.
  unfold firstN, len. rewrite Nnat.Nat2N.id, firstn_app, Nat.sub_diag, firstn_all. cbn. apply app_nil_r.
Qed.

(* Capturing returns precisely the octets the closure advanced over - not one
   more or less - and decoding continues immediately after them, with the
   enclosing limit reduced by exactly that many octets. *)
Theorem capture_exact {T} (c : cons) (op : cons -> M (T * cons)) s r c1 s1 p :
  op c s = (Ok (r, c1), s1) -> rem s = p ++ rem s1 -> lim_ge (lim s) (len p) ->
  capture c op s
  = (Ok (p, r, with_state c (cst c1)), mkSrc (rem s1) (lim_sub (lim s) (len p)) (flt s1)).
Proof.
  intros Hop Hp Hl. unfold capture.
  rewrite (bind_ok get _ s s s) by reflexivity. rewrite (bind_ok _ _ _ _ _ Hop).
  rewrite (bind_ok get _ s1 s1 s1) by reflexivity.
  assert (Hn : len (rem s) - len (rem s1) = len p) by (rewrite Hp, len_app; lia).
  rewrite Hn.
  assert (Hchk : (match lim s with Some l => if l <? len p then panic else ret tt | None => ret tt end) s1
                 = (Ok tt, s1)).
  { destruct (lim s) as [l|]; cbn [lim_ge] in Hl; [|reflexivity].
    replace (l <? len p) with false by lia. reflexivity. }
  rewrite (bind_ok _ _ _ tt _ Hchk). unfold bind, put, ret.
  rewrite Hp, firstN_app_exact. reflexivity.
Qed.

(* known finding D18: a body that consumes the enclosing end-of-contents *)
Lemma capture_eoc_witness :
  exists d, fst ((r <- process_next_value (mkCons Unbounded Ber) (Some T_SEQUENCE)
                        (as_cons (fun c => capture_all 20 c)) ;; ret (fst r)) (pure_src d None))
            = Ok (Some [2; 1; 0; 0; 0]).
Proof. exists [48; 128; 2; 1; 0; 0; 0]. vm_compute. reflexivity. Qed.

(* a failing closure makes the capture fail with the same error: nothing is
   captured from incomplete data *)
Theorem capture_propagates_error {T} (c : cons) (op : cons -> M (T * cons)) s s1 :
  op c s = (CErr, s1) -> fst (capture c op s) = CErr.
Proof.
  intro H. unfold capture. rewrite (bind_ok get _ s s s) by reflexivity.
  rewrite (bind_cerr _ _ _ _ H). reflexivity.
Qed.

(* ====================================================================== *)
(* C10: skipping                                                           *)
(* ====================================================================== *)
(* skipping reports absence exactly where an optional read does when the
   enclosing value is known to have ended *)
Theorem skip_absent_when_exhausted {T} fuel c fl (op : tag -> content -> M (T * content)) s :
  is_exhausted c s = (Ok true, s) ->
  skip_opt fuel c fl s = (Ok (SkNone, c, []), s) /\
  process_next_value c None op s = (Ok (None, c), s).
Proof.
  intro H. unfold skip_opt, process_next_value. rewrite !(bind_ok _ _ _ true s H). split; reflexivity.
Qed.

Lemma need_ok n d l : n <= len d -> lim_ge l n ->
  need n (mkSrc d l None) = (Ok tt, mkSrc d l None).
Proof.
  intros Hd Hl. unfold need, bind, tick. cbn [flt]. unfold avail. cbn [lim rem].
  destruct l as [x|]; cbn [lim_ge] in Hl.
  - replace (N.min x (len d) <? n) with false by lia. reflexivity.
  - replace (len d <? n) with false by lia. reflexivity.
Qed.
Lemma advance_ok n d l : n <= len d -> lim_ge l n ->
  advance n (mkSrc d l None) = (Ok tt, mkSrc (skipN n d) (lim_sub l n) None).
Proof.
  intros Hd Hl. unfold advance. cbn [rem lim flt]. replace (len d <? n) with false by lia.
  destruct l as [x|]; cbn [lim_ge lim_sub] in *; [|reflexivity].
  replace (x <? n) with false by lia. reflexivity.
Qed.
Lemma skipN_app_exact {A} (p r : list A) : skipN (len p) (p ++ r) = r.
Proof. unfold skipN, len. rewrite Nnat.Nat2N.id, skipn_app, Nat.sub_diag, skipn_all. reflexivity. Qed.

(* skipping a primitive value advances over exactly the octets reading it
   does, and presents its tag, form and depth to the filter exactly once *)
Theorem skip_primitive_like_read fuel (c : cons) (fl : filter) cls n t L lw body rest l :
  is_class cls -> tag_new cls n = Ok t -> tag_eqb t END_OF_VALUE = false ->
  length_write L = Ok lw -> len body = L ->
  lim_ge l (len (tag_write false t) + len lw + L) ->
  cons_open c (mkSrc (tag_write false t ++ lw ++ body ++ rest) l None) ->
  cst c <> Unbounded -> fl t false 0 = true ->
  skip_opt (S (S fuel)) c fl (mkSrc (tag_write false t ++ lw ++ body ++ rest) l None)
  = (Ok (SkSome, c, [(t, false, 0)]),
     mkSrc rest (lim_sub l (len (tag_write false t) + len lw + L)) None).
Proof.
  intros Hc Hn Ht Hw Hb Hl Ho Hu Hf. unfold skip_opt.
  rewrite (bind_ok _ _ _ false _ (is_exhausted_open c _ Ho)). cbv iota.
  cbn [skip_loop].
  replace (cstate_eqb (cst c) Unbounded) with false by (destruct (cst c); try reflexivity; congruence).
  destruct (header_definite cls n t false L lw (body ++ rest) l c Hc Hn Hw
              ltac:(eapply lim_ge_mono; [|exact Hl]; lia)) as [H1 H2].
  assert (Hhdr : (r <- tag_take_from ;; ret (Some r))
                   (mkSrc (tag_write false t ++ lw ++ body ++ rest) l None)
                 = (Ok (Some (t, false)), mkSrc (lw ++ body ++ rest) (lim_sub l (len (tag_write false t))) None))
    by (unfold bind; rewrite H1; reflexivity).
  rewrite (bind_ok _ _ _ _ _ Hhdr). cbv iota beta.
  rewrite (bind_ok _ _ _ (Definite_ L) _ H2). cbn [negb]. rewrite Ht.
  change (len (@nil (option (option N)))) with 0. rewrite Hf. cbn [negb].
  set (l1 := lim_sub l (len (tag_write false t) + len lw)).
  assert (Hl1 : lim_ge l1 L) by (subst l1; apply lim_ge_sub; eapply lim_ge_mono; [|exact Hl]; lia).
  assert (Hd : L <= len (body ++ rest)) by (rewrite len_app; lia).
  rewrite (bind_ok _ _ _ tt _ (need_ok L _ l1 Hd Hl1)).
  rewrite (bind_ok _ _ _ tt _ (advance_ok L _ l1 Hd Hl1)).
  rewrite <- Hb at 1. rewrite skipN_app_exact.
  cbn [skip_after skip_unwind length]. unfold bind, ret. cbn [app].
  subst l1. rewrite lim_sub_sub. reflexivity.
Qed.
