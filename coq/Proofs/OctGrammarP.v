(* OCTET STRING versus the grammar (property C16): a constructed BER octet
   string is accepted exactly when its content is a grammar string of values
   that are all OCTET STRINGs (to any depth), and the segment iterator over
   the captured content yields the contents of the tree's primitive leaves,
   in order. *)
From Coq Require Import Lia ZifyBool ZifyN ZifyNat.
Require Import BV.Model.Base BV.Model.SrcB BV.Model.Length BV.Model.Tag BV.Model.Content BV.Model.OctStr.
Require Import BV.Proofs.Bits BV.Proofs.SrcBP BV.Proofs.LengthP BV.Proofs.TagP BV.Proofs.ContentP
               BV.Proofs.WinP BV.Proofs.TotalP BV.Proofs.DeltaP BV.Proofs.GrammarP BV.Proofs.SkipP BV.Proofs.CaptureP.
Arguments N.add : simpl never. Arguments N.sub : simpl never.
Arguments N.ltb : simpl never. Arguments N.leb : simpl never. Arguments N.eqb : simpl never.

Fixpoint tlv_ind' (P : tlv -> Prop) (Hp : forall t c, P (TPrim t c))
    (Hc : forall t kids, Forall P kids -> P (TCons t kids)) (t : tlv) : P t :=
  match t with
  | TPrim a c => Hp a c
  | TCons a kids =>
      Hc a kids ((fix go (l : list tlv) : Forall P l :=
                    match l with
                    | [] => Forall_nil P
                    | x :: r => Forall_cons x (tlv_ind' P Hp Hc x) (go r)
                    end) kids)
  end.

(* the contents of the primitive leaves, in encoding order *)
Fixpoint leaves (t : tlv) : list (list N) :=
  match t with
  | TPrim _ c => [c]
  | TCons _ kids => (fix go (l : list tlv) : list (list N) :=
                       match l with [] => [] | x :: r => leaves x ++ go r end) kids
  end.
Fixpoint leaves_l (l : list tlv) : list (list N) :=
  match l with [] => [] | x :: r => leaves x ++ leaves_l r end.
Lemma leaves_cons tg kids : leaves (TCons tg kids) = leaves_l kids.
Proof. cbn [leaves]. induction kids as [|x r IH]; [reflexivity|]. cbn [leaves_l]. rewrite <- IH. reflexivity. Qed.

(* every node is an OCTET STRING = the tag filter accepts the whole trace *)
Definition all_octet (t : tlv) : Prop := accepts octet_filter (trace_of t 0) = true.

Lemma lenoct_to_ber m n lw : lenoct m n lw -> lenoct Ber n lw.
Proof.
  intros H r. specialize (H r). unfold length_read_spec in *.
  destruct (lw ++ r) as [|b0 r0]; [discriminate|].
  destruct (b0 <? 128); [exact H|]. destruct (b0 =? 128); [exact H|].
  destruct (4 <? b0 - 128); [discriminate|]. destruct (len r0 <? b0 - 128); [discriminate|].
  cbn [is_ber orb]. destruct (is_ber m || _); [exact H|discriminate].
Qed.

(* the filter only looks at the tag: acceptance does not depend on depth *)
Lemma accepts_octet_depth t d1 d2 : accepts octet_filter (trace_of t d1) = accepts octet_filter (trace_of t d2).
Proof.
  revert d1 d2. induction t as [tg c|tg kids IH] using tlv_ind'; intros d1 d2.
  - reflexivity.
  - rewrite !trace_cons.
    change (accepts octet_filter ((tg, true, d1) :: traces kids (d1 + 1)))
      with (octet_filter tg true d1 && accepts octet_filter (traces kids (d1 + 1))).
    change (accepts octet_filter ((tg, true, d2) :: traces kids (d2 + 1)))
      with (octet_filter tg true d2 && accepts octet_filter (traces kids (d2 + 1))).
    f_equal. generalize (d1 + 1) (d2 + 1). intros e1 e2.
    induction IH as [|x r Hx Hr IHr]; [reflexivity|]. cbn [traces]. rewrite !accepts_app. f_equal; [apply Hx|apply IHr].
Qed.

(* ---- the segment walker on a grammar string of OCTET STRING values ---- *)
Lemma seg_walk_S f d acc : d <> [] ->
  seg_walk (S f) d acc =
  match tag_take_from (pure_src d None) with
  | (Ok (t, k), s1) =>
      match length_take_from Ber s1 with
      | (Ok l, s2) =>
          if tag_eqb t T_OCTET_STRING then
            if k then seg_walk f (rem s2) acc else
            match l with
            | Definite_ n => if len (rem s2) <? n then Panic
                             else seg_walk f (skipN n (rem s2)) (firstN n (rem s2) :: acc)
            | Indefinite_ => Panic
            end
          else if tag_eqb t END_OF_VALUE then seg_walk f (rem s2) acc
          else Panic
      | _ => Panic
      end
  | _ => Panic
  end.
Proof. intro H. cbn [seg_walk]. destruct d; [congruence|reflexivity]. Qed.

Lemma walk_header f t k lw v rest acc :
  legal_tag t -> octets_ok (tag_write k t ++ lw ++ rest) = true ->
  length_read_spec Ber (lw ++ rest) = Ok (v, rest) ->
  seg_walk (S f) (tag_write k t ++ lw ++ rest) acc =
    if tag_eqb t T_OCTET_STRING then
      if k then seg_walk f rest acc else
      match v with
      | Definite_ n => if len rest <? n then Panic else seg_walk f (skipN n rest) (firstN n rest :: acc)
      | Indefinite_ => Panic
      end
    else if tag_eqb t END_OF_VALUE then seg_walk f rest acc
    else Panic.
Proof.
  intros Ht Hok Hs. rewrite seg_walk_S.
  2:{ pose proof (tag_write_len_pos k t) as H. destruct (tag_write k t); [cbn in H; lia|discriminate]. }
  unfold pure_src. rewrite (tag_at_limit t k (lw ++ rest) None Ht I). cbn [lim_sub].
  rewrite (length_at_limit Ber lw rest None v (octets_ok_app_r _ _ Hok) Hs I). cbn [rem lim_sub]. reflexivity.
Qed.

Definition WV (m : mode) (t : tlv) (d : list N) : Prop :=
  accepts octet_filter (trace_of t 0) = true ->
  exists k, (k <= length d)%nat /\ forall fuel rest acc, octets_ok (d ++ rest) = true ->
    seg_walk (k + fuel) (d ++ rest) acc = seg_walk fuel rest (rev (leaves t) ++ acc).
Definition WS (m : mode) (ts : list tlv) (ds : list N) : Prop :=
  accepts octet_filter (traces ts 0) = true ->
  exists k, (k <= length ds)%nat /\ forall fuel rest acc, octets_ok (ds ++ rest) = true ->
    seg_walk (k + fuel) (ds ++ rest) acc = seg_walk fuel rest (rev (leaves_l ts) ++ acc).

Lemma traces_octet_depth ts d1 d2 : accepts octet_filter (traces ts d1) = accepts octet_filter (traces ts d2).
Proof.
  induction ts as [|x r IH]; [reflexivity|]. cbn [traces]. rewrite !accepts_app. f_equal; [apply accepts_octet_depth|apply IH].
Qed.

Lemma octet_head tg k d r : accepts octet_filter ((tg, k, d) :: r) = true ->
  tag_eqb tg T_OCTET_STRING = true /\ accepts octet_filter r = true.
Proof. cbn [accepts forallb]. intro H. apply andb_prop in H. exact H. Qed.

Theorem walk_grammar m :
  (forall t d, GrammarP.enc m t d -> WV m t d) /\ (forall ts ds, encs m ts ds -> WS m ts ds).
Proof.
  apply enc_encs_ind.
  - (* primitive *)
    intros t c lw Ht He Hlw Hacc. cbn [trace_of] in Hacc. apply octet_head in Hacc as [Htag _].
    exists 1%nat. split; [rewrite !app_length; pose proof (tag_write_length_pos false t); lia|].
    intros fuel rest acc Hok. rewrite <- !app_assoc in *. change (1 + fuel)%nat with (S fuel).
    rewrite (walk_header fuel t false lw (Definite_ (len c)) (c ++ rest) acc Ht Hok (lenoct_to_ber _ _ _ Hlw (c ++ rest))).
    rewrite Htag. rewrite len_app. replace (len c + len rest <? len c) with false by lia.
    rewrite skipN_app_exact, firstN_app_exact. reflexivity.
  - (* constructed, definite *)
    intros t kids lw body Ht He Hc Hlw Hk IH Hacc. rewrite trace_cons in Hacc. apply octet_head in Hacc as [Htag Hkids].
    rewrite (traces_octet_depth kids _ 0) in Hkids. destruct (IH Hkids) as (k & Hkb & HW).
    exists (S k). split; [rewrite !app_length; pose proof (tag_write_length_pos true t); pose proof (lenoct_nonempty _ _ _ Hlw); lia|].
    intros fuel rest acc Hok. rewrite <- !app_assoc in *. change (S k + fuel)%nat with (S (k + fuel)).
    rewrite (walk_header (k + fuel) t true lw (Definite_ (len body)) (body ++ rest) acc Ht Hok (lenoct_to_ber _ _ _ Hlw (body ++ rest))).
    rewrite Htag. rewrite HW by (apply octets_ok_app_r in Hok; apply octets_ok_app_r in Hok; exact Hok).
    rewrite leaves_cons. reflexivity.
  - (* constructed, indefinite *)
    intros t kids body lw0 Ht He Hd Hk IH Hlw0 Hacc. rewrite trace_cons in Hacc. apply octet_head in Hacc as [Htag Hkids].
    rewrite (traces_octet_depth kids _ 0) in Hkids. destruct (IH Hkids) as (k & Hkb & HW).
    exists (S (S k)). split; [rewrite !app_length; cbn [length]; pose proof (tag_write_length_pos true t); lia|].
    intros fuel rest acc Hok. rewrite <- !app_assoc in *. cbn [app] in *.
    change (128 :: body ++ 0 :: lw0 ++ rest) with ([128] ++ (body ++ 0 :: lw0 ++ rest)) in *.
    replace (S (S k) + fuel)%nat with (S (k + S fuel))%nat by lia.
    rewrite (walk_header (k + S fuel) t true [128] Indefinite_ (body ++ 0 :: lw0 ++ rest) acc Ht Hok (lenoct_indef _ _)).
    rewrite Htag.
    assert (Hok2 : octets_ok (body ++ 0 :: lw0 ++ rest) = true) by (apply octets_ok_app_r in Hok; apply octets_ok_app_r in Hok; exact Hok).
    rewrite (HW (S fuel) (0 :: lw0 ++ rest) acc Hok2).
    change (0 :: lw0 ++ rest) with (tag_write false END_OF_VALUE ++ lw0 ++ rest).
    rewrite (walk_header fuel END_OF_VALUE false lw0 (Definite_ 0) rest _ legal_eov
               ltac:(apply octets_ok_app_r in Hok2; exact Hok2) (lenoct_to_ber _ _ _ Hlw0 rest)).
    change (tag_eqb END_OF_VALUE T_OCTET_STRING) with false. change (tag_eqb END_OF_VALUE END_OF_VALUE) with true. cbv iota.
    rewrite leaves_cons. reflexivity.
  - intros _. exists 0%nat. split; [cbn; lia|]. intros. reflexivity.
  - intros t ts d ds He IH1 Hs IH2 Hacc. cbn [traces] in Hacc. rewrite accepts_app in Hacc. apply andb_prop in Hacc as [H1 H2].
    destruct (IH1 H1) as (k1 & B1 & W1). destruct (IH2 H2) as (k2 & B2 & W2).
    exists (k1 + k2)%nat. split; [rewrite app_length; lia|].
    intros fuel rest acc Hok. rewrite <- app_assoc in *.
    replace (k1 + k2 + fuel)%nat with (k1 + (k2 + fuel))%nat by lia.
    rewrite W1 by exact Hok. rewrite W2 by (apply octets_ok_app_r in Hok; exact Hok).
    cbn [leaves_l]. rewrite rev_app_distr, <- app_assoc. reflexivity.
Qed.

(* the segment iterator over captured content that is a grammar string of
   OCTET STRINGs (optionally followed by the parent's end-of-contents, which
   the iterator skips) yields the leaves' contents, in order; every view is
   the concatenation *)
Theorem segments_are_leaves m ts ds : encs m ts ds -> accepts octet_filter (traces ts 0) = true ->
  octets_ok ds = true ->
  os_segments (OCons ds) = Ok (leaves_l ts) /\ os_octets (OCons ds) = Ok (concat (leaves_l ts)).
Proof.
  intros He Hacc Hok. destruct (proj2 (walk_grammar m) ts ds He Hacc) as (k & Hk & HW).
  assert (Hs : os_segments (OCons ds) = Ok (leaves_l ts)).
  { cbn [os_segments]. replace (S (length ds)) with (k + S (length ds - k))%nat by lia.
    rewrite <- (app_nil_r ds) at 2. rewrite HW by (rewrite app_nil_r; exact Hok).
    cbn [seg_walk]. rewrite app_nil_r, rev_involutive. reflexivity. }
  split; [exact Hs|]. unfold os_octets. rewrite Hs. reflexivity.
Qed.

Theorem segments_are_leaves_eoc m ts ds lw0 : encs m ts ds -> accepts octet_filter (traces ts 0) = true ->
  lenoct m 0 lw0 -> octets_ok (ds ++ 0 :: lw0) = true ->
  os_segments (OCons (ds ++ 0 :: lw0)) = Ok (leaves_l ts) /\
  os_octets (OCons (ds ++ 0 :: lw0)) = Ok (concat (leaves_l ts)).
Proof.
  intros He Hacc Hlw Hok. destruct (proj2 (walk_grammar m) ts ds He Hacc) as (k & Hk & HW).
  assert (Hs : os_segments (OCons (ds ++ 0 :: lw0)) = Ok (leaves_l ts)).
  { cbn [os_segments]. rewrite app_length. cbn [length].
    replace (S (length ds + S (length lw0))) with (k + S (S (length ds + length lw0 - k)))%nat by lia.
    rewrite HW by exact Hok.
    replace (0 :: lw0) with (tag_write false END_OF_VALUE ++ lw0 ++ []) by (cbn; rewrite app_nil_r; reflexivity).
    rewrite (walk_header _ END_OF_VALUE false lw0 (Definite_ 0) [] _ legal_eov
               ltac:(apply octets_ok_app_r in Hok; cbn; rewrite app_nil_r; exact Hok)
               ltac:(pose proof (lenoct_to_ber _ _ _ Hlw []) as X; exact X)).
    change (tag_eqb END_OF_VALUE T_OCTET_STRING) with false. change (tag_eqb END_OF_VALUE END_OF_VALUE) with true. cbv iota.
    cbn [seg_walk]. rewrite app_nil_r, rev_involutive. reflexivity. }
  split; [exact Hs|]. unfold os_octets. rewrite Hs. reflexivity.
Qed.

(* ---- acceptance of a constructed BER octet string ---- *)
Lemma ber_loop_sound fuel : forall c s u c' s', nf s -> octets_ok (rem s) = true ->
  ber_segments_loop fuel c s = (Ok (u, c'), s') ->
  nf s' /\ exists ts ds, encs (cmd c) ts ds /\ accepts octet_filter (traces ts 0) = true /\
    match cst c with
    | Indefinite => exists lw0, rem s = ds ++ 0 :: lw0 ++ rem s' /\ lenoct (cmd c) 0 lw0
    | _ => rem s = ds ++ rem s'
    end.
Proof.
  induction fuel as [|f IH]; intros c s u c' s' Hn Hok H; [discriminate|].
  cbn [ber_segments_loop] in H.
  apply bind_ok_inv in H as ([[o c1] tr1] & s1 & Hsk & H).
  destruct o.
  - injection H as <- <- <-.
    unfold skip_opt in Hsk. apply bind_ok_inv in Hsk as (ex & s0 & H0 & Hsk).
    pose proof (is_exhausted_state _ _ _ _ H0) as ->.
    destruct ex.
    { injection Hsk as <- <- <-. split; [exact Hn|]. exists [], []. split; [constructor|]. split; [reflexivity|].
      unfold is_exhausted in H0. destruct (cst c); try discriminate; reflexivity. }
    destruct (proj1 (skip_sound (S f)) c octet_filter [] [] s SkNone c1 tr1 s1 Hn Hok Hsk) as (Hn' & _ & _ & X).
    split; [exact Hn'|]. exists [], []. split; [constructor|]. split; [reflexivity|].
    destruct X as [(-> & -> & Hu & He)|(Hi & -> & lw0 & Hr & Hlw & _)].
    + rewrite Hu. reflexivity.
    + rewrite Hi. exists lw0. auto.
  - destruct (skipped_is_wellformed (S f) c octet_filter s c1 tr1 s1 Hn Hok Hsk) as (-> & t & d & He & Hrs & _ & Htr & Hacc).
    assert (Hn1 : nf s1).
    { unfold skip_opt in Hsk. apply bind_ok_inv in Hsk as (ex & s0 & H0 & Hsk).
      pose proof (is_exhausted_state _ _ _ _ H0) as ->. destruct ex; [discriminate|].
      apply (proj1 (skip_sound (S f)) c octet_filter [] [] s SkSome c tr1 s1 Hn Hok Hsk). }
    assert (Hok1 : octets_ok (rem s1) = true) by (rewrite Hrs in Hok; apply octets_ok_app_r in Hok; exact Hok).
    destruct (IH c s1 u c' s' Hn1 Hok1 H) as (Hn' & ts & ds & Hds & Hts & Hctx).
    split; [exact Hn'|]. exists (t :: ts), (d ++ ds). split; [constructor; assumption|].
    split; [cbn [traces]; rewrite accepts_app, <- Htr, Hacc, Hts; reflexivity|].
    destruct (cst c).
    + rewrite Hrs, Hctx, app_assoc. reflexivity.
    + destruct Hctx as (lw0 & Hr & Hlw). exists lw0. rewrite Hrs, Hr, app_assoc. auto.
    + rewrite Hrs, Hctx, app_assoc. reflexivity.
    + rewrite Hrs, Hctx, app_assoc. reflexivity.
Qed.

(* a constructed octet string accepted in BER: its content was a grammar
   string of OCTET STRINGs, and every view is the concatenation of the
   primitive leaves' contents in encoding order *)
Theorem constructed_ber_is_segments fuel c s o c' s' :
  nf s -> octets_ok (rem s) = true ->
  take_constructed_ber fuel c s = (Ok (o, c'), s') ->
  exists ts, accepts octet_filter (traces ts 0) = true /\
    os_segments o = Ok (leaves_l ts) /\ os_octets o = Ok (concat (leaves_l ts)) /\
    os_len o = Ok (len (concat (leaves_l ts))) /\
    exists b, o = OCons b /\ rem s = b ++ rem s' /\
      match cst c with
      | Indefinite => exists ds lw0, b = ds ++ 0 :: lw0 /\ encs (cmd c) ts ds
      | _ => encs (cmd c) ts b
      end.
Proof.
  intros Hn Hok H. unfold take_constructed_ber in H. apply bind_ok_inv in H as ([[b u] c0] & s0 & H & H').
  injection H' as <- <- <-.
  destruct (capture_inv _ _ _ _ _ _ _ H) as (c1 & s1 & Hop & Ec & Eb & Hr & _).
  destruct (ber_loop_sound fuel c s u c1 s1 Hn Hok Hop) as (_ & ts & ds & Hds & Hacc & Hctx).
  exists ts. split; [exact Hacc|].
  assert (Hfin : forall b', rem s = b' ++ rem s1 -> b = b').
  { intros b' Hb. subst b. rewrite Hb. apply firstN_prefix. }
  destruct (cst c) eqn:Ecst.
  - pose proof (Hfin ds Hctx) as ->.
    assert (Hokd : octets_ok ds = true) by (rewrite Hctx in Hok; apply octets_ok_app_l in Hok; exact Hok).
    destruct (segments_are_leaves _ _ _ Hds Hacc Hokd) as [S1 S2].
    split; [exact S1|]. split; [exact S2|]. split; [unfold os_len; rewrite S2; reflexivity|].
    exists ds. rewrite Hr. auto.
  - destruct Hctx as (lw0 & Hrs & Hlw).
    assert (Hb : b = ds ++ 0 :: lw0) by (apply Hfin; rewrite Hrs, <- app_assoc; reflexivity).
    subst b. rewrite Hb in *.
    assert (Hokd : octets_ok (ds ++ 0 :: lw0) = true).
    { rewrite Hrs in Hok. replace (ds ++ 0 :: lw0 ++ rem s1) with ((ds ++ 0 :: lw0) ++ rem s1) in Hok by (rewrite <- app_assoc; reflexivity).
      apply octets_ok_app_l in Hok. exact Hok. }
    destruct (segments_are_leaves_eoc _ _ _ _ Hds Hacc Hlw Hokd) as [S1 S2].
    split; [exact S1|]. split; [exact S2|]. split; [unfold os_len; rewrite S2; reflexivity|].
    exists (ds ++ 0 :: lw0). split; [reflexivity|]. split; [rewrite Hr, Hrs, <- app_assoc; reflexivity|].
    exists ds, lw0. auto.
  - pose proof (Hfin ds Hctx) as ->.
    assert (Hokd : octets_ok ds = true) by (rewrite Hctx in Hok; apply octets_ok_app_l in Hok; exact Hok).
    destruct (segments_are_leaves _ _ _ Hds Hacc Hokd) as [S1 S2].
    split; [exact S1|]. split; [exact S2|]. split; [unfold os_len; rewrite S2; reflexivity|].
    exists ds. rewrite Hr. auto.
  - pose proof (Hfin ds Hctx) as ->.
    assert (Hokd : octets_ok ds = true) by (rewrite Hctx in Hok; apply octets_ok_app_l in Hok; exact Hok).
    destruct (segments_are_leaves _ _ _ Hds Hacc Hokd) as [S1 S2].
    split; [exact S1|]. split; [exact S2|]. split; [unfold os_len; rewrite S2; reflexivity|].
    exists ds. rewrite Hr. auto.
Qed.
