(* Proofs about Model/OctStr.v (properties C16, C17, C18). *)
From Coq Require Import Lia ZifyBool ZifyN.
Require Import BV.Model.Base BV.Model.SrcB BV.Model.Length BV.Model.Tag BV.Model.Content BV.Model.OctStr.
Require Import BV.Proofs.Bits BV.Proofs.SrcBP BV.Proofs.LengthP BV.Proofs.TagP BV.Proofs.OidP.
Ltac Zify.zify_post_hook ::= Z.div_mod_to_equations.
Arguments N.add : simpl never. Arguments N.sub : simpl never. Arguments N.mul : simpl never.
Arguments N.ltb : simpl never. Arguments N.leb : simpl never. Arguments N.eqb : simpl never.
Arguments N.land : simpl never. Arguments N.lor : simpl never. Arguments N.shiftl : simpl never.

(* ====================================================================== *)
(* C17: comparison and hashing are functions of the content only           *)
(* ====================================================================== *)
Lemma list_eqb_refl l : list_eqb l l = true.
Proof. induction l as [|x l IH]; [reflexivity|]. cbn. rewrite N.eqb_refl, IH. reflexivity. Qed.

Lemma list_eqb_app_inv p a b : list_eqb (p ++ a) (p ++ b) = list_eqb a b.
Proof. induction p as [|x p IH]; [reflexivity|]. cbn. rewrite N.eqb_refl, IH. reflexivity. Qed.

Lemma firstN_skipN_id {A} n (l : list A) : firstN n l ++ skipN n l = l.
Proof. apply firstn_skipn. Qed.

Lemma list_eqb_len a b : list_eqb a b = true -> len a = len b.
Proof. intro H. apply list_eqb_eq in H. subst. reflexivity. Qed.

(* the segment loop of PartialEq<[u8]> decides equality with the concatenation *)
Lemma eq_slice_loop_spec segs other :
  eq_slice_loop segs other = list_eqb (concat segs) other.
Proof.
  revert other. induction segs as [|p r IH]; intro other; cbn [eq_slice_loop concat].
  - destruct other; reflexivity.
  - destruct (len other <? len p) eqn:E.
    + (* other too short: cannot be equal *)
      symmetry. apply Bool.not_true_iff_false. intro H. apply list_eqb_len in H.
      rewrite len_app in H. lia.
    + assert (Hsplit : other = firstN (len p) other ++ skipN (len p) other)
        by (symmetry; apply firstN_skipN_id).
      destruct (list_eqb p (firstN (len p) other)) eqn:E2; cbn [negb].
      * apply list_eqb_eq in E2. rewrite IH. rewrite Hsplit at 2. rewrite <- E2.
        rewrite list_eqb_app_inv. reflexivity.
      * symmetry. apply Bool.not_true_iff_false. intro H. apply list_eqb_eq in H.
        assert (firstN (len p) other = p).
        { rewrite <- H. unfold firstN, len. rewrite Nnat.Nat2N.id, firstn_app, Nat.sub_diag, firstn_all.
          cbn. apply app_nil_r. }
        rewrite H0, list_eqb_refl in E2. discriminate.
Qed.

(* equality, ordering and hash input are those of the content octet
   sequences, however either side is segmented *)
Theorem os_compare_content a b ca cb :
  os_octets a = Ok ca -> os_octets b = Ok cb ->
  os_eq a b = Ok (list_eqb ca cb) /\ os_cmp a b = Ok (lexc ca cb) /\
  (ca = cb -> os_hash_input a = os_hash_input b).
Proof.
  intros Ha Hb. unfold os_eq, os_cmp, os_hash_input. rewrite Ha, Hb.
  repeat split. intros ->. reflexivity.
Qed.

Theorem os_compare_slice a ca sl :
  os_octets a = Ok ca ->
  os_eq_slice a sl = Ok (list_eqb ca sl) /\ os_cmp_slice a sl = Ok (lexc ca sl).
Proof.
  intro Ha. unfold os_cmp_slice. rewrite Ha. split; [|reflexivity].
  unfold os_eq_slice. unfold os_octets in Ha. destruct a as [b|d].
  - cbn in Ha. destruct b; cbn in Ha; injection Ha as <-; [reflexivity|cbn; rewrite app_nil_r; reflexivity].
  - destruct (os_segments (OCons d)) as [segs| | | |]; cbn in Ha; try discriminate.
    injection Ha as <-. cbn. rewrite eq_slice_loop_spec. reflexivity.
Qed.

(* lexc is the lexicographic order: antisymmetric and Eq exactly on equal lists *)
Lemma lexc_eq a b : lexc a b = Eq <-> a = b.
Proof.
  revert b. induction a as [|x a IH]; intros [|y b]; cbn; split; try discriminate; try reflexivity.
  - destruct (x ?= y) eqn:E; try discriminate. apply N.compare_eq in E. subst. intro H. f_equal. apply IH. exact H.
  - intros [= -> ->]. rewrite N.compare_refl. apply IH. reflexivity.
Qed.
Lemma lexc_antisym a b : lexc b a = CompOpp (lexc a b).
Proof.
  revert b. induction a as [|x a IH]; intros [|y b]; cbn; try reflexivity.
  rewrite (N.compare_antisym x y). destruct (x ?= y); cbn; [apply IH|reflexivity|reflexivity].
Qed.

(* ====================================================================== *)
(* C18: character sets                                                     *)
(* ====================================================================== *)
(* the three ASCII-based sets: accepted exactly when every octet is in the set,
   and the characters are the octets *)
Lemma chars_of_ascii cs (ok : N -> bool) s fuel :
  (forall t, next_char cs t = match t with [] => Some None | x :: r => if ok x then Some (Some (x, r)) else None end) ->
  (length s < fuel)%nat ->
  chars_of fuel cs s = if forallb ok s then Some s else None.
Proof.
  intros Hn. revert fuel. induction s as [|x s IH]; intros fuel Hf.
  - destruct fuel; [lia|]. cbn. rewrite Hn. reflexivity.
  - destruct fuel; [cbn in Hf; lia|]. cbn [chars_of forallb]. rewrite Hn.
    destruct (ok x); [|reflexivity]. cbn [andb]. rewrite IH by (cbn in Hf; lia).
    destruct (forallb ok s); reflexivity.
Qed.

Theorem ascii_sets_exact cs s : cs <> Utf8 ->
  let ok := match cs with Numeric => numeric_ok | Printable => printable_ok | _ => ia5_ok end in
  cs_check cs s = forallb ok s /\
  (cs_check cs s = true -> chars_of (S (length s)) cs s = Some s).
Proof.
  intros Hc ok. unfold cs_check.
  assert (H : chars_of (S (length s)) cs s = if forallb ok s then Some s else None).
  { apply chars_of_ascii; [|lia]. intro t. destruct cs; try congruence; reflexivity. }
  rewrite H. destruct (forallb ok s); split; try reflexivity; try discriminate.
Qed.

(* UTF-8: one decoding step consumes a well-formed RFC 3629 sequence and
   yields a Unicode scalar value (so char::from_u32_unchecked is sound) *)
Lemma land_k_mod x : N.land x 31 = x mod 32 /\ N.land x 63 = x mod 64 /\ N.land x 15 = x mod 16 /\ N.land x 7 = x mod 8.
Proof.
  repeat split; [apply land_31|apply land_63|exact (land_ones_k x 4)|exact (land_ones_k x 3)].
Qed.

Lemma lor2_6 x y : y < 64 -> N.lor (N.shiftl x 6) y = x * 64 + y.
Proof. intro H. rewrite lor_shiftl by (cbn; lia). reflexivity. Qed.
Lemma lor3_6 x y z : y < 64 -> z < 64 ->
  N.lor (N.lor (N.shiftl x 12) (N.shiftl y 6)) z = x * 4096 + y * 64 + z.
Proof.
  intros Hy Hz. rewrite !shiftl_k. change (2^12) with 4096. change (2^6) with 64.
  replace (x * 4096) with (x * 2^12) by (change (2^12) with 4096; lia).
  rewrite (lor_mul_pow2 x (y * 64) 12) by (change (2^12) with 4096; lia).
  change (2^12) with 4096.
  replace (x * 4096 + y * 64) with ((x * 64 + y) * 2^6) by (change (2^6) with 64; lia).
  rewrite lor_mul_pow2 by (change (2^6) with 64; lia). change (2^6) with 64. lia.
Qed.
Lemma lor4_6 x y z w : y < 64 -> z < 64 -> w < 64 ->
  N.lor (N.lor (N.lor (N.shiftl x 18) (N.shiftl y 12)) (N.shiftl z 6)) w
  = x * 262144 + y * 4096 + z * 64 + w.
Proof.
  intros Hy Hz Hw. rewrite !shiftl_k. change (2^18) with 262144. change (2^12) with 4096. change (2^6) with 64.
  replace (x * 262144) with (x * 2^18) by (change (2^18) with 262144; lia).
  rewrite (lor_mul_pow2 x (y * 4096) 18) by (change (2^18) with 262144; lia). change (2^18) with 262144.
  replace (x * 262144 + y * 4096) with ((x * 64 + y) * 2^12) by (change (2^12) with 4096; lia).
  rewrite (lor_mul_pow2 _ (z * 64) 12) by (change (2^12) with 4096; lia). change (2^12) with 4096.
  replace ((x * 64 + y) * 4096 + z * 64) with (((x * 64 + y) * 64 + z) * 2^6) by (change (2^6) with 64; lia).
  rewrite lor_mul_pow2 by (change (2^6) with 64; lia). change (2^6) with 64. lia.
Qed.

Theorem utf8_step_scalar s ch r : octets_ok s = true ->
  next_char Utf8 s = Some (Some (ch, r)) -> is_scalar ch = true /\ len r < len s.
Proof.
  intros Hok. unfold next_char. destruct s as [|a s1]; [discriminate|].
  apply octets_ok_cons in Hok as [Ha Hok]. rewrite !len_cons.
  destruct (a <? 128) eqn:E0; [intros [= <- <-]; split; [unfold is_scalar; lia|lia]|].
  unfold in_rng. destruct (negb ((194 <=? a) && (a <=? 244))) eqn:E1; [discriminate|].
  destruct s1 as [|b s2]; [discriminate|]. apply octets_ok_cons in Hok as [Hb Hok]. rewrite !len_cons.
  destruct (land_k_mod a) as (A31 & _ & A15 & A7). destruct (land_k_mod b) as (_ & B63 & _ & _).
  set (rng := if a =? 224 then (160, 191) else if a =? 237 then (128, 159)
              else if a =? 240 then (144, 191) else if a =? 244 then (128, 143) else (128, 191)).
  destruct rng as [lo hi] eqn:Er.
  destruct (negb ((lo <=? b) && (b <=? hi))) eqn:E2; [discriminate|].
  assert (Hrng : 128 <= b <= 191 /\ (a = 224 -> 160 <= b) /\ (a = 237 -> b <= 159) /\
                 (a = 240 -> 144 <= b) /\ (a = 244 -> b <= 143)).
  { subst rng. destruct (a =? 224) eqn:X1; [injection Er as <- <-; lia|].
    destruct (a =? 237) eqn:X2; [injection Er as <- <-; lia|].
    destruct (a =? 240) eqn:X3; [injection Er as <- <-; lia|].
    destruct (a =? 244) eqn:X4; injection Er as <- <-; lia. }
  destruct (a <? 224) eqn:E3.
  { intros [= <- <-]. rewrite A31, B63, lor2_6 by lia. split; [unfold is_scalar; lia|lia]. }
  destruct s2 as [|c s3]; [discriminate|]. apply octets_ok_cons in Hok as [Hc Hok]. rewrite !len_cons.
  destruct (land_k_mod c) as (_ & C63 & _ & _).
  destruct (negb ((128 <=? c) && (c <=? 191))) eqn:E4; [discriminate|].
  destruct (a <? 240) eqn:E5.
  { intros [= <- <-]. rewrite A15, B63, C63, lor3_6 by lia. split; [unfold is_scalar; lia|lia]. }
  destruct s3 as [|d s4]; [discriminate|]. apply octets_ok_cons in Hok as [Hd Hok]. rewrite !len_cons.
  destruct (land_k_mod d) as (_ & D63 & _ & _).
  destruct (negb ((128 <=? d) && (d <=? 191))) eqn:E6; [discriminate|].
  intros [= <- <-]. rewrite A7, B63, C63, D63, lor4_6 by lia. split; [unfold is_scalar; lia|lia].
Qed.

(* every character an accepted string yields is a Unicode scalar value, for
   all four sets: iterating or displaying never builds an invalid char *)
Theorem chars_are_scalars cs fuel s l : octets_ok s = true ->
  chars_of fuel cs s = Some l -> forallb is_scalar l = true.
Proof.
  revert s l. induction fuel as [|f IH]; intros s l Hok; [discriminate|]. cbn [chars_of].
  destruct (next_char cs s) as [[[ch r]|]|] eqn:E; try discriminate; [|intros [= <-]; reflexivity].
  destruct (chars_of f cs r) as [l'|] eqn:E2; [|discriminate]. intros [= <-]. cbn [forallb].
  assert (Hr : octets_ok r = true /\ is_scalar ch = true).
  { destruct cs.
    - destruct (utf8_step_scalar s ch r Hok E) as [Hs _]. split; [|exact Hs].
      (* r is a suffix of s *)
      unfold next_char in E. destruct s as [|a s1]; [discriminate|].
      apply octets_ok_cons in Hok as [_ Hok].
      destruct (a <? 128); [injection E as _ <-; exact Hok|].
      destruct (negb _); [discriminate|]. destruct s1 as [|b s2]; [discriminate|].
      apply octets_ok_cons in Hok as [_ Hok].
      destruct (if a =? 224 then _ else _) as [lo hi]. destruct (negb _); [discriminate|].
      destruct (a <? 224); [injection E as _ <-; exact Hok|].
      destruct s2 as [|c s3]; [discriminate|]. apply octets_ok_cons in Hok as [_ Hok].
      destruct (negb _); [discriminate|]. destruct (a <? 240); [injection E as _ <-; exact Hok|].
      destruct s3 as [|d s4]; [discriminate|]. apply octets_ok_cons in Hok as [_ Hok].
      destruct (negb _); [discriminate|]. injection E as _ <-. exact Hok.
    - cbn in E. destruct s as [|x s1]; [discriminate|]. apply octets_ok_cons in Hok as [Hx Hok].
      destruct (numeric_ok x) eqn:X; [|discriminate]. injection E as <- <-. split; [exact Hok|].
      unfold is_scalar. lia.
    - cbn in E. destruct s as [|x s1]; [discriminate|]. apply octets_ok_cons in Hok as [Hx Hok].
      destruct (printable_ok x) eqn:X; [|discriminate]. injection E as <- <-. split; [exact Hok|].
      unfold is_scalar. lia.
    - cbn in E. destruct s as [|x s1]; [discriminate|]. apply octets_ok_cons in Hok as [Hx Hok].
      destruct (ia5_ok x) eqn:X; [|discriminate]. injection E as <- <-. split; [exact Hok|].
      unfold is_scalar. lia. }
  destruct Hr as [Hr ->]. cbn [andb]. eapply IH; eassumption.
Qed.

(* an accepted string can always be iterated: chars() never panics *)
Theorem accepted_string_iterates cs o o' : rs_new cs o = Ok o' ->
  exists l, rs_chars cs o' = Ok l.
Proof.
  unfold rs_new, rs_chars. destruct (os_octets o) as [c| | | |] eqn:E; try discriminate.
  destruct (cs_check cs c) eqn:C; [|discriminate]. intros [= <-]. rewrite E.
  unfold cs_check in C. destruct (chars_of (S (length c)) cs c); [eauto|discriminate].
Qed.
Theorem from_str_string_iterates cs u o : rs_from_str cs u = Ok o -> cs <> Utf8 ->
  exists l, rs_chars cs o = Ok l.
Proof.
  unfold rs_from_str, rs_chars. intros H Hc. destruct cs; try congruence;
    (destruct (cs_check _ u) eqn:C; [|discriminate]; injection H as <-;
     unfold os_octets, os_segments; destruct u as [|x u];
     [cbn; eauto|cbn [res_map concat]; rewrite app_nil_r; unfold cs_check in C;
      destruct (chars_of _ _ (x :: u)); [eauto|discriminate]]).
Qed.

(* ====================================================================== *)
(* C16: DER re-encoding flattens to a primitive encoding of the content     *)
(* ====================================================================== *)
Theorem os_der_encoding o c t lw : os_octets o = Ok c -> length_write (len c) = Ok lw ->
  os_encode Der t o = Ok (tag_write false t ++ lw ++ c) /\
  os_encoded_len Der t o = Ok (len (tag_write false t ++ lw ++ c)).
Proof.
  intros Ho Hw. unfold os_encode, os_encoded_len, os_len, write_hdr. rewrite Ho, Hw. cbn [res_map].
  split; [rewrite <- app_assoc; reflexivity|].
  rewrite (length_encoded_len_correct _ _ Hw). cbn [res_map]. rewrite !len_app.
  f_equal.
  assert (E : tag_encoded_len t = len (tag_write false t)).
  { unfold tag_write. destruct t as [[[a b] c0] d]. unfold tag_encoded_len.
    destruct (negb (N.land 31 a =? 31)); [reflexivity|].
    destruct (N.land 128 b =? 0); [reflexivity|]. destruct (N.land 128 c0 =? 0); reflexivity. }
  rewrite E. lia.
Qed.

(* a primitive octet string: one segment (none if empty), all views = content *)
Theorem os_primitive_views b :
  os_octets (OPrim b) = Ok b /\ os_len (OPrim b) = Ok (len b) /\
  os_is_empty (OPrim b) = Ok (match b with [] => true | _ => false end).
Proof.
  unfold os_len, os_is_empty, os_octets, os_segments. destruct b as [|x b]; cbn; [repeat split|].
  rewrite app_nil_r. repeat split.
Qed.

(* the views of any value are derived from one segment list: octets =
   concatenation of the segments in order, len = its length, empty iff no octet *)
Theorem os_views_consistent o segs : os_segments o = Ok segs ->
  os_octets o = Ok (concat segs) /\ os_len o = Ok (len (concat segs)) /\
  os_is_empty o = Ok (match concat segs with [] => true | _ => false end).
Proof.
  intro H. unfold os_len, os_is_empty, os_octets. rewrite H. repeat split.
Qed.

(* known finding D17: BER re-encoding of an indefinite-form string includes
   its end-of-contents under a definite length *)
Lemma ber_reencode_witness :
  exists d o, octstr_take_from Ber T_OCTET_STRING d = Ok o /\
              os_encode Ber T_OCTET_STRING o = Ok [36; 6; 4; 2; 97; 98; 0; 0].
Proof.
  exists [36; 128; 4; 2; 97; 98; 0; 0], (OCons [4; 2; 97; 98; 0; 0]). split; vm_compute; reflexivity.
Qed.
