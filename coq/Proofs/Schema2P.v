(* Records with OPTIONAL fields (C04/C05): schemas whose record fields may be
   optional; an absent optional field is recognised by the tag of what follows
   (X.680 distinct-tag rule), by the end of a definite parent, by the
   end-of-contents of an indefinite parent, or by the end of the input. *)
From Coq Require Import Lia ZifyBool ZifyN ZifyNat.
Require Import BV.Model.Base BV.Model.SrcB BV.Model.Length BV.Model.Tag BV.Model.Twos BV.Model.Int
               BV.Model.Content BV.Model.OctStr BV.Model.Encode BV.Model.Prog.
Require Import BV.Proofs.Bits BV.Proofs.SrcBP BV.Proofs.LengthP BV.Proofs.TagP BV.Proofs.ContentP BV.Proofs.OctGrammarP
               BV.Proofs.WinP BV.Proofs.TotalP BV.Proofs.DeltaP BV.Proofs.IntP BV.Proofs.IntEncP
               BV.Proofs.EncodeP BV.Proofs.GrammarP BV.Proofs.EncGrammarP BV.Proofs.TypedP BV.Proofs.SchemaP.
Arguments N.add : simpl never. Arguments N.sub : simpl never.
Arguments N.ltb : simpl never. Arguments N.leb : simpl never. Arguments N.eqb : simpl never.
Arguments N.min : simpl never.

(* ---- "no value with tag t here": an expected-tag read reports absence and touches nothing ---- *)
Definition NoTag (t : tag) (c : cons) (s : src) : Prop :=
  forall T (op : tag -> content -> M (T * content)), process_next_value c (Some t) op s = (Ok (None, c), s).

Lemma NoTag_definite_end t mm rest : NoTag t (mkCons Definite mm) (mkSrc rest (Some 0) None).
Proof. intros T op. reflexivity. Qed.

Lemma NoTag_peek t t' k tl c l : legal_tag t' -> t' <> t ->
  lim_ge l (len (tag_write k t')) -> may_start c l ->
  NoTag t c (mkSrc (tag_write k t' ++ tl) l None).
Proof.
  intros [Hc Hn] Hne Hl Hst T op. unfold process_next_value.
  assert (Hex : is_exhausted c (mkSrc (tag_write k t' ++ tl) l None) = (Ok false, mkSrc (tag_write k t' ++ tl) l None)).
  { apply is_exhausted_open. unfold cons_open, may_start in *. destruct (cst c); auto. }
  rewrite (bind_ok _ _ _ _ _ Hex). cbv iota.
  assert (Hif : tag_take_from_if t (mkSrc (tag_write k t' ++ tl) l None) = (Ok None, mkSrc (tag_write k t' ++ tl) l None)).
  { rewrite (tag_take_from_if_peek_gen t (mkSrc (tag_write k t' ++ tl) l None) eq_refl).
    assert (Hv : exists r', visible (mkSrc (tag_write k t' ++ tl) l None) = tag_write k t' ++ r').
    { rewrite visible_eq. cbn [lim rem]. destruct l as [x|]; [|eexists; reflexivity].
      cbn [lim_ge] in Hl. rewrite firstN_app_ge by exact Hl. eexists; reflexivity. }
    destruct Hv as [r' ->]. rewrite (peek_tag_write _ _ t' k r' Hc Hn).
    destruct (tag_eqb t' t) eqn:E; [apply tag_eqb_eq in E; congruence|reflexivity]. }
  unfold bind at 1. unfold bind at 1. rewrite Hif. reflexivity.
Qed.

Lemma NoTag_eoc t mm rest l : tag_ok t -> lim_ge l 2 -> NoTag t (mkCons Indefinite mm) (mkSrc (0 :: 0 :: rest) l None).
Proof.
  intros [Hleg He] Hl. change (0 :: 0 :: rest) with (tag_write false END_OF_VALUE ++ 0 :: rest).
  assert (H1 : len (tag_write false END_OF_VALUE) = 1) by reflexivity.
  apply NoTag_peek; [exact legal_eov| |rewrite H1; eapply lim_ge_mono; [|exact Hl]; lia|exact I].
  intro E. subst t. discriminate He.
Qed.

Lemma NoTag_of t c s :
  is_exhausted c s = (Ok true, s) \/ (is_exhausted c s = (Ok false, s) /\ tag_take_from_if t s = (Ok None, s)) ->
  NoTag t c s.
Proof.
  intros [H|[H1 H2]] T op; unfold process_next_value.
  - rewrite (bind_ok _ _ _ _ _ H). reflexivity.
  - rewrite (bind_ok _ _ _ _ _ H1). cbv iota. unfold bind at 1. unfold bind at 1. rewrite H2. reflexivity.
Qed.

Lemma take_if_empty t l : tag_take_from_if t (mkSrc [] l None) = (Ok None, mkSrc [] l None).
Proof.
  rewrite (tag_take_from_if_peek_gen t (mkSrc [] l None) eq_refl).
  rewrite visible_eq. cbn [lim rem]. destruct l; [unfold firstN; rewrite firstn_nil|]; reflexivity.
Qed.

Lemma NoTag_empty t c l : cst c <> Done -> (cst c = Definite -> exists x, l = Some x) -> NoTag t c (mkSrc [] l None).
Proof.
  intros Hd Hx. apply NoTag_of. unfold is_exhausted.
  destruct (cst c) eqn:E; try congruence.
  - destruct (Hx eq_refl) as [x ->]. unfold bind, get_lim, ret. cbn [lim].
    destruct (x =? 0); [left; reflexivity|right; split; [reflexivity|apply take_if_empty]].
  - right. split; [reflexivity|apply take_if_empty].
  - right. split; [reflexivity|apply take_if_empty].
Qed.

(* ---- a constructed value around any content reader ---- *)
Definition cons_closure {V T} (R : cons -> M (V * cons)) (F : V -> T) : tag -> content -> M (T * content) :=
  fun _ ct => match ct with
              | CCons c' => r <- R c' ;; let '(vs, c'') := r in ret (F vs, CCons c'')
              | CPrim _ => cerr
              end.

Lemma record_frame {V T} (t : tag) (be : etree) (m : mode) (d body : list N)
      (R : cons -> M (V * cons)) (F : V -> T) (vs : V) (Pend : cons -> src -> Prop) :
  tag_ok t -> enc_write m be = Ok body -> enc_write m (ECons t be) = Ok d ->
  (forall mm rest, Pend (mkCons Definite mm) (mkSrc rest (Some 0) None)) ->
  (forall mm rest l, lim_ge l 2 -> Pend (mkCons Indefinite mm) (mkSrc (0 :: 0 :: rest) l None)) ->
  (forall c' rest' l', reads m (cmd c') -> octets_ok (body ++ rest') = true -> lim_ge l' (len body) -> ctx_ok c' l' ->
      Pend c' (mkSrc rest' (lim_sub l' (len body)) None) ->
      R c' (mkSrc (body ++ rest') l' None) = (Ok (vs, c'), mkSrc rest' (lim_sub l' (len body)) None)) ->
  1 <= len d /\ (exists tl, d = tag_write true t ++ tl) /\
  forall c rest l, reads m (cmd c) -> octets_ok (d ++ rest) = true -> lim_ge l (len d) -> ctx_ok c l ->
    process_next_value c (Some t) (cons_closure R F) (mkSrc (d ++ rest) l None)
    = (Ok (Some (F vs), c), mkSrc rest (lim_sub l (len d)) None).
Proof.
  intros [Hleg Heov] Eb0 Hw PD PI HL.
  cbn [enc_write] in Hw.
  assert (Htw := tag_write_len_pos true t).
  destruct m.
  - (* BER: definite *)
    destruct (enc_len Ber be) as [n| | | |] eqn:En; try discriminate. cbn [res_bind] in Hw.
    destruct (length_write n) as [lw| | | |] eqn:Elw; try discriminate. cbn [res_bind] in Hw.
    rewrite Eb0 in Hw. cbn [res_map] in Hw. injection Hw as <-.
    rewrite enc_len_is_written, Eb0 in En. injection En as <-.
    split. { rewrite len_app. lia. } split. { eexists; reflexivity. }
    intros c rest l Hm Ho Hl Hc. unfold cons_closure.
    rewrite <- !app_assoc in *. rewrite !len_app in Hl.
    assert (Hl' : lim_ge l (len (tag_write true t) + len lw)) by (eapply lim_ge_mono; [|exact Hl]; lia).
    replace (len (tag_write true t ++ lw ++ body)) with (len (tag_write true t) + (len lw + len body)) by (rewrite !len_app; reflexivity).
    rewrite (pnv_header_if c _ t true lw (Definite_ (len body)) (body ++ rest) l Hleg Ho
               (lenoct_reads _ _ _ _ Hm (lenoct_write Ber _ _ Elw) _) Hl'
               (may_start_of c l _ Hc Hl' ltac:(lia))).
    unfold pnv_tail. rewrite Heov.
    set (l1 := lim_sub l (len (tag_write true t) + len lw)).
    assert (Hl1 : lim_ge l1 (len body)) by (subst l1; destruct l as [y|]; cbn [lim_ge lim_sub] in *; [lia|trivial]).
    unfold bind at 1. unfold get_lim at 1. cbn [lim]. cbv beta iota.
    unfold bind at 1. rewrite (lim_check l1 (len body) Hl1). cbv beta iota.
    unfold bind at 1. unfold set_limit at 1. cbn [rem flt]. cbv beta iota.
    assert (Hnc : mode_eqb (cmd c) Cer = false) by (destruct Hm as [->|[_ ->]]; reflexivity).
    rewrite Hnc. cbn [andb]. unfold bind at 1. unfold ret at 1. cbv beta iota.
    unfold bind at 1. unfold bind at 1.
    rewrite (HL (mkCons Definite (cmd c)) rest (Some (len body)) Hm
               ltac:(apply octets_ok_app_r in Ho; apply octets_ok_app_r in Ho; exact Ho) ltac:(cbn; lia)
               ltac:(split; [discriminate|intros _; eauto])
               ltac:(cbn [lim_sub]; replace (len body - len body) with 0 by lia; apply PD)).
    cbv beta iota. unfold ret at 1. cbv beta iota. cbn [lim_sub]. replace (len body - len body) with 0 by lia.
    cbn [content_exhausted cons_exhausted cst]. unfold bind at 1. rewrite src_exhausted_0. cbv beta iota.
    unfold bind, set_limit, ret. cbn [rem flt]. subst l1. rewrite lim_sub_sub.
    replace (len (tag_write true t) + len lw + len body) with (len (tag_write true t) + (len lw + len body)) by lia.
    reflexivity.
  - (* CER: indefinite *)
    rewrite Eb0 in Hw. cbn [res_map] in Hw. injection Hw as <-.
    split. { rewrite len_app. lia. } split. { eexists; reflexivity. }
    intros c rest l Hm Ho Hl Hc. unfold cons_closure.
    assert (Hm' : cmd c = Cer) by (destruct Hm as [E|[E _]]; [exact E|discriminate E]).
    rewrite <- !app_assoc in *. cbn [app] in *. rewrite <- (app_assoc body [0; 0] rest) in *. cbn [app] in *.
    change (128 :: body ++ 0 :: 0 :: rest) with ([128] ++ (body ++ 0 :: 0 :: rest)) in *.
    assert (Hlen : len (tag_write true t ++ 128 :: body ++ [0; 0]) = len (tag_write true t) + 1 + (len body + 2)).
    { rewrite len_app, len_cons, len_app. cbn [len length N.of_nat]. lia. }
    rewrite Hlen in Hl.
    assert (Hl' : lim_ge l (len (tag_write true t) + len [128])) by (eapply lim_ge_mono; [|exact Hl]; cbn [len length N.of_nat]; lia).
    rewrite Hlen.
    rewrite (pnv_header_if c _ t true [128] Indefinite_ (body ++ 0 :: 0 :: rest) l Hleg Ho (lenoct_indef _ _) Hl'
               (may_start_of c l _ Hc Hl' ltac:(lia))).
    unfold pnv_tail. rewrite Heov. rewrite Hm'. cbn [negb orb mode_eqb].
    unfold bind at 1. unfold bind at 1.
    set (l1 := lim_sub l (len (tag_write true t) + len [128])).
    assert (Hl1 : lim_ge l1 (len body + 2)).
    { subst l1. change (len [128]) with 1. destruct l as [y|]; cbn [lim_ge lim_sub] in *; [lia|trivial]. }
    rewrite (HL (mkCons Indefinite Cer) (0 :: 0 :: rest) l1 (or_introl eq_refl)
               ltac:(apply octets_ok_app_r in Ho; apply octets_ok_app_r in Ho; exact Ho)
               ltac:(eapply lim_ge_mono; [|exact Hl1]; lia)
               ltac:(split; [discriminate|intro E; discriminate E])
               ltac:(apply PI; apply lim_ge_sub; eapply lim_ge_mono; [|exact Hl1]; lia)).
    cbv beta iota. unfold ret at 1. cbv beta iota. cbn [content_exhausted].
    rewrite (bind_ok _ _ _ _ _ (cons_exhausted_eoc Cer rest (lim_sub l1 (len body))
               ltac:(apply octets_ok_app_r in Ho; apply octets_ok_app_r in Ho; apply octets_ok_app_r in Ho; exact Ho)
               ltac:(apply lim_ge_sub; eapply lim_ge_mono; [|exact Hl1]; lia))).
    unfold ret. subst l1. rewrite !lim_sub_sub. change (len [128]) with 1.
    replace (len (tag_write true t) + 1 + len body + 2) with (len (tag_write true t) + 1 + (len body + 2)) by lia.
    reflexivity.
  - (* DER: definite *)
    destruct (enc_len Der be) as [n| | | |] eqn:En; try discriminate. cbn [res_bind] in Hw.
    destruct (length_write n) as [lw| | | |] eqn:Elw; try discriminate. cbn [res_bind] in Hw.
    rewrite Eb0 in Hw. cbn [res_map] in Hw. injection Hw as <-.
    rewrite enc_len_is_written, Eb0 in En. injection En as <-.
    split. { rewrite len_app. lia. } split. { eexists; reflexivity. }
    intros c rest l Hm Ho Hl Hc. unfold cons_closure.
    rewrite <- !app_assoc in *. rewrite !len_app in Hl.
    assert (Hl' : lim_ge l (len (tag_write true t) + len lw)) by (eapply lim_ge_mono; [|exact Hl]; lia).
    replace (len (tag_write true t ++ lw ++ body)) with (len (tag_write true t) + (len lw + len body)) by (rewrite !len_app; reflexivity).
    rewrite (pnv_header_if c _ t true lw (Definite_ (len body)) (body ++ rest) l Hleg Ho
               (lenoct_reads _ _ _ _ Hm (lenoct_write Der _ _ Elw) _) Hl'
               (may_start_of c l _ Hc Hl' ltac:(lia))).
    unfold pnv_tail. rewrite Heov.
    set (l1 := lim_sub l (len (tag_write true t) + len lw)).
    assert (Hl1 : lim_ge l1 (len body)) by (subst l1; destruct l as [y|]; cbn [lim_ge lim_sub] in *; [lia|trivial]).
    unfold bind at 1. unfold get_lim at 1. cbn [lim]. cbv beta iota.
    unfold bind at 1. rewrite (lim_check l1 (len body) Hl1). cbv beta iota.
    unfold bind at 1. unfold set_limit at 1. cbn [rem flt]. cbv beta iota.
    assert (Hnc : mode_eqb (cmd c) Cer = false) by (destruct Hm as [->|[_ ->]]; reflexivity).
    rewrite Hnc. cbn [andb]. unfold bind at 1. unfold ret at 1. cbv beta iota.
    unfold bind at 1. unfold bind at 1.
    rewrite (HL (mkCons Definite (cmd c)) rest (Some (len body)) Hm
               ltac:(apply octets_ok_app_r in Ho; apply octets_ok_app_r in Ho; exact Ho) ltac:(cbn; lia)
               ltac:(split; [discriminate|intros _; eauto])
               ltac:(cbn [lim_sub]; replace (len body - len body) with 0 by lia; apply PD)).
    cbv beta iota. unfold ret at 1. cbv beta iota. cbn [lim_sub]. replace (len body - len body) with 0 by lia.
    cbn [content_exhausted cons_exhausted cst]. unfold bind at 1. rewrite src_exhausted_0. cbv beta iota.
    unfold bind, set_limit, ret. cbn [rem flt]. subst l1. rewrite lim_sub_sub.
    replace (len (tag_write true t) + len lw + len body) with (len (tag_write true t) + (len lw + len body)) by lia.
    reflexivity.
Qed.

(* ---- schemas with OPTIONAL record fields ---- *)
Inductive schema2 := S2Leaf (t : tag) (k : leafkind) | S2Seq (t : tag) (fields : list (bool * schema2)).
Definition tag_of (s : schema2) : tag := match s with S2Leaf t _ | S2Seq t _ => t end.

Fixpoint enc2 (s : schema2) (v : sval) : option etree :=
  match s, v with
  | S2Leaf t k, _ => option_map (EPrim t) (lenc k v)
  | S2Seq t fs, VSeq vs =>
      option_map (fun es => ECons t (ESeq es))
        ((fix go (fs : list (bool * schema2)) (vs : list sval) : option (list etree) :=
            match fs, vs with
            | [], [] => Some []
            | (false, f) :: fr, x :: xr =>
                match enc2 f x, go fr xr with Some e, Some es => Some (e :: es) | _, _ => None end
            | (true, f) :: fr, VOpt None :: xr => option_map (fun es => EOpt None :: es) (go fr xr)
            | (true, f) :: fr, VOpt (Some x) :: xr =>
                match enc2 f x, go fr xr with Some e, Some es => Some (EOpt (Some e) :: es) | _, _ => None end
            | _, _ => None
            end) fs vs)
  | _, _ => None
  end.
Fixpoint enc2l (fs : list (bool * schema2)) (vs : list sval) : option (list etree) :=
  match fs, vs with
  | [], [] => Some []
  | (false, f) :: fr, x :: xr =>
      match enc2 f x, enc2l fr xr with Some e, Some es => Some (e :: es) | _, _ => None end
  | (true, f) :: fr, VOpt None :: xr => option_map (fun es => EOpt None :: es) (enc2l fr xr)
  | (true, f) :: fr, VOpt (Some x) :: xr =>
      match enc2 f x, enc2l fr xr with Some e, Some es => Some (EOpt (Some e) :: es) | _, _ => None end
  | _, _ => None
  end.
Lemma enc2_seq t fs vs : enc2 (S2Seq t fs) (VSeq vs) = option_map (fun es => ECons t (ESeq es)) (enc2l fs vs).
Proof. reflexivity. Qed.

(* the typed readers: an expected-tag read per field, mandatory unless the field is optional *)
Fixpoint dec2 (fuel : nat) (s : schema2) (c : cons) : M (option sval * cons) :=
  match fuel with
  | O => nofuel
  | S f =>
    match s with
    | S2Leaf t k => process_next_value c (Some t) (prim_closure (lop k))
    | S2Seq t fs => process_next_value c (Some t) (cons_closure (dec2l f fs) VSeq)
    end
  end
with dec2l (fuel : nat) (fs : list (bool * schema2)) (c : cons) : M (list sval * cons) :=
  match fuel with
  | O => nofuel
  | S f =>
    match fs with
    | [] => ret ([], c)
    | (false, s) :: r => x <- mandatory (dec2 f s c) ;; let '(v, c1) := x in
                         y <- dec2l f r c1 ;; let '(vs, c2) := y in ret (v :: vs, c2)
    | (true, s) :: r => x <- dec2 f s c ;; let '(o, c1) := x in
                        y <- dec2l f r c1 ;; let '(vs, c2) := y in ret (VOpt o :: vs, c2)
    end
  end.

(* well-formedness: legal tags, and the X.680 rule that makes absence decidable:
   the tag of an optional field differs from the tags of the fields that may
   follow it immediately (up to and including the next mandatory field) *)
Fixpoint head_tags (fs : list (bool * schema2)) : list tag :=
  match fs with
  | [] => []
  | (true, s) :: r => tag_of s :: head_tags r
  | (false, s) :: _ => [tag_of s]
  end.
Fixpoint opt_tags (fs : list (bool * schema2)) : list tag :=
  match fs with
  | [] => []
  | (true, s) :: r => tag_of s :: opt_tags r
  | (false, _) :: r => opt_tags r
  end.
Fixpoint distinct (fs : list (bool * schema2)) : Prop :=
  match fs with
  | [] => True
  | (o, s) :: r => (o = true -> ~ In (tag_of s) (head_tags r)) /\ distinct r
  end.
Fixpoint ok2 (s : schema2) : Prop :=
  match s with
  | S2Leaf t _ => tag_ok t
  | S2Seq t fs => tag_ok t /\ distinct fs /\
      (fix go (l : list (bool * schema2)) : Prop := match l with [] => True | (_, x) :: r => ok2 x /\ go r end) fs
  end.
Fixpoint ok2l (l : list (bool * schema2)) : Prop := match l with [] => True | (_, x) :: r => ok2 x /\ ok2l r end.
Lemma ok2_seq t fs : ok2 (S2Seq t fs) <-> tag_ok t /\ distinct fs /\ ok2l fs.
Proof. cbn [ok2]. induction fs as [|[o x] r IH]; cbn [ok2l]; tauto. Qed.
Lemma ok2_tag s : ok2 s -> tag_ok (tag_of s).
Proof. destruct s; cbn [ok2 tag_of]; tauto. Qed.

Fixpoint depth2 (s : schema2) : nat :=
  match s with
  | S2Leaf _ _ => 1%nat
  | S2Seq _ fs => S ((fix go (l : list (bool * schema2)) : nat := match l with [] => 1%nat | (_, x) :: r => (S (depth2 x) + go r)%nat end) fs)
  end.
Fixpoint depth2l (l : list (bool * schema2)) : nat := match l with [] => 1%nat | (_, x) :: r => (S (depth2 x) + depth2l r)%nat end.
Lemma depth2_seq t fs : depth2 (S2Seq t fs) = S (depth2l fs).
Proof. reflexivity. Qed.
Lemma depth2_pos s : (1 <= depth2 s)%nat. Proof. destruct s; cbn [depth2]; lia. Qed.
Lemma depth2l_pos l : (1 <= depth2l l)%nat. Proof. destruct l as [|[o x] r]; cbn [depth2l]; lia. Qed.

Fixpoint schema2_ind' (P : schema2 -> Prop)
    (Hl : forall t k, P (S2Leaf t k))
    (Hs : forall t fs, Forall (fun bf => P (snd bf)) fs -> P (S2Seq t fs)) (s : schema2) : P s :=
  match s with
  | S2Leaf t k => Hl t k
  | S2Seq t fs =>
      Hs t fs ((fix go (l : list (bool * schema2)) : Forall (fun bf => P (snd bf)) l :=
                  match l with
                  | [] => Forall_nil _
                  | bf :: r => Forall_cons bf (schema2_ind' P Hl Hs (snd bf)) (go r)
                  end) fs)
  end.

(* ---- the round trip ---- *)
Definition EndOK (fs : list (bool * schema2)) (c : cons) (s : src) : Prop :=
  forall t, In t (opt_tags fs) -> NoTag t c s.

Definition RT2 (s : schema2) : Prop :=
  forall v e m d, ok2 s -> enc2 s v = Some e -> enc_write m e = Ok d ->
  1 <= len d /\ (exists k tl, d = tag_write k (tag_of s) ++ tl) /\
  forall fuel c rest l, (depth2 s <= fuel)%nat -> reads m (cmd c) -> octets_ok (d ++ rest) = true ->
    lim_ge l (len d) -> ctx_ok c l ->
    dec2 fuel s c (mkSrc (d ++ rest) l None) = (Ok (Some v, c), mkSrc rest (lim_sub l (len d)) None).

Definition RTL2 (fs : list (bool * schema2)) : Prop :=
  forall vs es m ds, ok2l fs -> distinct fs -> enc2l fs vs = Some es -> enc_write m (ESeq es) = Ok ds ->
  (ds = [] \/ exists t' k tl, ds = tag_write k t' ++ tl /\ In t' (head_tags fs) /\ legal_tag t') /\
  forall fuel c rest l, (depth2l fs <= fuel)%nat -> reads m (cmd c) -> octets_ok (ds ++ rest) = true ->
    lim_ge l (len ds) -> ctx_ok c l -> EndOK fs c (mkSrc rest (lim_sub l (len ds)) None) ->
    dec2l fuel fs c (mkSrc (ds ++ rest) l None) = (Ok (vs, c), mkSrc rest (lim_sub l (len ds)) None).

Lemma mandatory_ok {T} (m : M (option T * cons)) s v c s' :
  m s = (Ok (Some v, c), s') -> mandatory m s = (Ok (v, c), s').
Proof. intro H. unfold mandatory, bind. rewrite H. reflexivity. Qed.

Lemma opt_tags_ok fs t : ok2l fs -> In t (opt_tags fs) -> tag_ok t.
Proof.
  induction fs as [|[o x] r IH]; cbn [ok2l opt_tags]; [intros _ []|]. intros [Hx Hr] Hin.
  destruct o; [destruct Hin as [<-|Hin]; [apply ok2_tag, Hx|]|]; auto.
Qed.

Lemma RTL2_of_Forall fs : Forall (fun bf => RT2 (snd bf)) fs -> RTL2 fs.
Proof.
  induction 1 as [|[o s] r Hs Hr IH]; intros vs es m ds Hok Hdi He Hw.
  - destruct vs; [|discriminate]. injection He as <-. injection Hw as <-. split; [left; reflexivity|].
    intros fuel c rest l Hf Hm Ho Hl Hc _.
    destruct fuel as [|f]; [cbn in Hf; lia|]. cbn [dec2l app len length N.of_nat]. rewrite lim_sub_0. reflexivity.
  - cbn [snd] in Hs. destruct Hok as [Hok1 Hok2]. destruct Hdi as [Hd1 Hd2].
    pose proof (ok2_tag s Hok1) as [Hleg Heov].
    destruct o.
    + (* OPTIONAL field *)
      destruct vs as [|v0 vr]; [discriminate|]. destruct v0 as [x|b| |vs0|[x|]|cc0|u0 bs0]; try discriminate.
      * (* present *)
        cbn [enc2l] in He. destruct (enc2 s x) as [e|] eqn:E1; [|discriminate].
        destruct (enc2l r vr) as [er|] eqn:E2; [|discriminate]. injection He as <-.
        destruct (enc_write_seq_cons m _ er ds Hw) as (d1 & ds2 & W1 & W2 & ->). cbn [enc_write] in W1.
        destruct (Hs x e m d1 Hok1 E1 W1) as (Hpos & (k & tl & Htag) & Hdec).
        destruct (IH vr er m ds2 Hok2 Hd2 E2 W2) as [_ IHd].
        split. { right. exists (tag_of s), k, (tl ++ ds2). rewrite Htag, <- app_assoc. split; [reflexivity|]. split; [left; reflexivity|exact Hleg]. }
        intros fuel c rest l Hf Hm Ho Hl Hc Hend. cbn [depth2l] in Hf.
        pose proof (depth2_pos s) as Hp1. pose proof (depth2l_pos r) as Hp2.
        destruct fuel as [|f]; [lia|]. cbn [dec2l]. rewrite <- app_assoc. rewrite len_app in Hl.
        rewrite (bind_ok _ _ _ _ _ (Hdec f c (ds2 ++ rest) l ltac:(lia) Hm ltac:(rewrite app_assoc; exact Ho)
                                      ltac:(eapply lim_ge_mono; [|exact Hl]; lia) Hc)).
        cbv iota beta.
        rewrite (bind_ok _ _ _ _ _ (IHd f c rest (lim_sub l (len d1)) ltac:(lia) Hm
                    ltac:(rewrite <- app_assoc in Ho; apply octets_ok_app_r in Ho; exact Ho)
                    ltac:(apply lim_ge_sub; exact Hl) (ctx_ok_sub _ _ _ Hc)
                    ltac:(intros t Ht; rewrite lim_sub_sub, <- len_app; apply Hend; cbn [opt_tags]; right; exact Ht))).
        rewrite lim_sub_sub, len_app. reflexivity.
      * (* absent *)
        cbn [enc2l] in He. destruct (enc2l r vr) as [er|] eqn:E2; [|discriminate]. injection He as <-.
        destruct (enc_write_seq_cons m _ er ds Hw) as (d1 & ds2 & W1 & W2 & ->). cbn [enc_write] in W1. injection W1 as <-.
        cbn [app] in *.
        destruct (IH vr er m ds2 Hok2 Hd2 E2 W2) as [IHt IHd].
        split. { destruct IHt as [->|(t' & k & tl & -> & Hin & Hl')]; [left; reflexivity|].
                 right. exists t', k, tl. split; [reflexivity|]. split; [right; exact Hin|exact Hl']. }
        intros fuel c rest l Hf Hm Ho Hl Hc Hend. cbn [depth2l] in Hf.
        pose proof (depth2_pos s) as Hp1. pose proof (depth2l_pos r) as Hp2.
        destruct fuel as [|f]; [lia|]. cbn [dec2l].
        assert (Hno : NoTag (tag_of s) c (mkSrc (ds2 ++ rest) l None)).
        { destruct IHt as [->|(t' & k & tl & -> & Hin & Hl')].
          - cbn [app len length N.of_nat] in *. rewrite <- (lim_sub_0 l). apply Hend. left. reflexivity.
          - rewrite <- app_assoc. apply NoTag_peek; [exact Hl'| | |].
            + intro E. subst t'. exact (Hd1 eq_refl Hin).
            + eapply lim_ge_mono; [|exact Hl]. rewrite len_app. lia.
            + apply (may_start_of c l (len (tag_write k t' ++ tl)) Hc Hl). rewrite len_app. pose proof (tag_write_len_pos k t'). lia. }
        assert (Hd0 : dec2 f s c (mkSrc (ds2 ++ rest) l None) = (Ok (None, c), mkSrc (ds2 ++ rest) l None)).
        { destruct f as [|f']; [lia|]. destruct s as [t0 k0|t0 fs0]; cbn [dec2 tag_of] in *; apply Hno. }
        rewrite (bind_ok _ _ _ _ _ Hd0). cbv iota beta.
        rewrite (bind_ok _ _ _ _ _ (IHd f c rest l ltac:(lia) Hm Ho Hl Hc
                    ltac:(intros t Ht; apply Hend; right; exact Ht))).
        reflexivity.
    + (* mandatory field *)
      destruct vs as [|v vr]; [discriminate|]. cbn [enc2l] in He.
      destruct (enc2 s v) as [e|] eqn:E1; [|discriminate].
      destruct (enc2l r vr) as [er|] eqn:E2; [|discriminate]. injection He as <-.
      destruct (enc_write_seq_cons m e er ds Hw) as (d1 & ds2 & W1 & W2 & ->).
      destruct (Hs v e m d1 Hok1 E1 W1) as (Hpos & (k & tl & Htag) & Hdec).
      destruct (IH vr er m ds2 Hok2 Hd2 E2 W2) as [_ IHd].
      split. { right. exists (tag_of s), k, (tl ++ ds2). rewrite Htag, <- app_assoc. split; [reflexivity|]. split; [left; reflexivity|exact Hleg]. }
      intros fuel c rest l Hf Hm Ho Hl Hc Hend. cbn [depth2l] in Hf.
      pose proof (depth2_pos s) as Hp1. pose proof (depth2l_pos r) as Hp2.
      destruct fuel as [|f]; [lia|]. cbn [dec2l]. rewrite <- app_assoc. rewrite len_app in Hl.
      rewrite (bind_ok _ _ _ _ _ (mandatory_ok _ _ _ _ _ (Hdec f c (ds2 ++ rest) l ltac:(lia) Hm ltac:(rewrite app_assoc; exact Ho)
                                    ltac:(eapply lim_ge_mono; [|exact Hl]; lia) Hc))).
      cbv iota beta.
      rewrite (bind_ok _ _ _ _ _ (IHd f c rest (lim_sub l (len d1)) ltac:(lia) Hm
                  ltac:(rewrite <- app_assoc in Ho; apply octets_ok_app_r in Ho; exact Ho)
                  ltac:(apply lim_ge_sub; exact Hl) (ctx_ok_sub _ _ _ Hc)
                  ltac:(intros t Ht; rewrite lim_sub_sub, <- len_app; apply Hend; exact Ht))).
      rewrite lim_sub_sub, len_app. reflexivity.
Qed.

Lemma RT2_leaf t k : RT2 (S2Leaf t k).
Proof.
  intros v e m d Hok He Hw. cbn [enc2] in He. destruct (lenc k v) as [cc|] eqn:El; [|discriminate].
  injection He as <-. cbn [enc_write] in Hw. unfold tlv_write in Hw.
  destruct (length_write (len cc)) as [lw| | | |] eqn:Elw; try discriminate. injection Hw as <-.
  destruct Hok as [Hleg Heov].
  split. { rewrite len_app. pose proof (tag_write_len_pos false t). lia. }
  split. { exists false, (lw ++ cc). reflexivity. }
  intros fuel c rest l Hf Hm Ho Hl Hc. destruct fuel as [|f]; [cbn in Hf; lia|]. cbn [dec2].
  apply (leaf_field_if (lop k) t cc lw v c rest l (Win_lop k (cmd c)) (St_lop k (cmd c))
             Hleg Heov (lenoct_reads _ _ _ _ Hm (lenoct_write _ _ _ Elw)) (leaf_law k (cmd c) v cc El) Ho Hl
             (may_start_of c l _ Hc Hl ltac:(rewrite len_app; pose proof (tag_write_len_pos false t); lia))).
Qed.

Lemma RT2_seq t fs : Forall (fun bf => RT2 (snd bf)) fs -> RT2 (S2Seq t fs).
Proof.
  intros HF v e m d Hok He Hw. pose proof (RTL2_of_Forall fs HF) as HL.
  destruct v as [x|b| |vs|o|cc0|u0 bs0]; try discriminate. rewrite enc2_seq in He.
  destruct (enc2l fs vs) as [es|] eqn:El; [|discriminate]. injection He as <-.
  apply ok2_seq in Hok as (Htok & Hdi & Hoks).
  assert (Hb : exists body, enc_write m (ESeq es) = Ok body).
  { remember (ESeq es) as be eqn:Ebe. cbn [enc_write] in Hw. destruct m.
    - destruct (enc_len Ber be) as [n| | | |]; try discriminate. cbn [res_bind] in Hw. destruct (length_write n); try discriminate. cbn [res_bind] in Hw.
      destruct (enc_write Ber be) as [body| | | |]; try discriminate. eauto.
    - destruct (enc_write Cer be) as [body| | | |]; try discriminate. eauto.
    - destruct (enc_len Der be) as [n| | | |]; try discriminate. cbn [res_bind] in Hw. destruct (length_write n); try discriminate. cbn [res_bind] in Hw.
      destruct (enc_write Der be) as [body| | | |]; try discriminate. eauto. }
  destruct Hb as [body Eb].
  destruct (HL vs es m body Hoks Hdi El Eb) as [_ HLd].
  assert (Hfr : forall f, (depth2l fs <= f)%nat ->
     1 <= len d /\ (exists tl, d = tag_write true t ++ tl) /\
     forall c rest l, reads m (cmd c) -> octets_ok (d ++ rest) = true -> lim_ge l (len d) -> ctx_ok c l ->
       process_next_value c (Some t) (cons_closure (dec2l f fs) VSeq) (mkSrc (d ++ rest) l None)
       = (Ok (Some (VSeq vs), c), mkSrc rest (lim_sub l (len d)) None)).
  { intros f Hf. apply (record_frame t (ESeq es) m d body (dec2l f fs) VSeq vs (EndOK fs) Htok Eb Hw).
    - intros mm rest t0 _. apply NoTag_definite_end.
    - intros mm rest l Hl t0 Ht0. apply NoTag_eoc; [exact (opt_tags_ok fs t0 Hoks Ht0)|exact Hl].
    - intros c' rest' l' Hm' Ho' Hl' Hc' Hend. apply (HLd f c' rest' l' Hf Hm' Ho' Hl' Hc' Hend). }
  destruct (Hfr (depth2l fs) (le_n _)) as (Hpos & (tl & Htl) & _).
  split; [exact Hpos|]. split; [exists true, tl; exact Htl|].
  intros fuel c rest l Hf Hm Ho Hl Hc. rewrite depth2_seq in Hf. destruct fuel as [|f]; [lia|]. cbn [dec2].
  destruct (Hfr f ltac:(lia)) as (_ & _ & H). apply H; assumption.
Qed.

Theorem schema2_roundtrip s : RT2 s.
Proof. induction s using schema2_ind'; [apply RT2_leaf|apply RT2_seq; assumption]. Qed.

(* a whole input *)
Theorem schema2_roundtrip_top s v e m m' d : ok2 s -> enc2 s v = Some e -> enc_write m e = Ok d ->
  octets_ok d = true -> reads m m' ->
  decode_src m' (fun c => mandatory (dec2 (depth2 s) s c)) (pure_src d None) = (Ok v, pure_src [] None).
Proof.
  intros Hok He Hw Ho Hr. destruct (schema2_roundtrip s v e m d Hok He Hw) as (_ & _ & H).
  unfold decode_src, pure_src. rewrite <- (app_nil_r d) at 1.
  rewrite (bind_ok _ _ _ _ _ (mandatory_ok _ _ _ _ _ (H (depth2 s) (mkCons Unbounded m') [] None (le_n _) Hr
             ltac:(rewrite app_nil_r; exact Ho) I ltac:(split; [discriminate|intro E; discriminate E])))).
  reflexivity.
Qed.

(* non-vacuity: a record with optional fields, one present and two absent (one of them last) *)
Example schema2_example :
  let s := S2Seq T_SEQUENCE [(true, S2Leaf T_BOOLEAN LBool); (false, S2Leaf T_INTEGER (LInt 2));
                             (true, S2Seq T_SET [(false, S2Leaf T_NULL LNull)]); (true, S2Leaf T_NULL LNull)] in
  let v := VSeq [VOpt None; VInt (-300); VOpt (Some (VSeq [VNull])); VOpt None] in
  ok2 s /\ exists e, enc2 s v = Some e /\ enc_write Der e = Ok [48; 8; 2; 2; 254; 212; 49; 2; 5; 0] /\
  decode_src Der (fun c => mandatory (dec2 (depth2 s) s c)) (pure_src [48; 8; 2; 2; 254; 212; 49; 2; 5; 0] None) = (Ok v, pure_src [] None).
Proof.
  cbv zeta. split.
  - cbn. repeat split; try (left; reflexivity); try (intros _ [E|[E|[]]]; discriminate E); try (intros _ [E|[]]; discriminate E); try (intros _ []); try discriminate.
  - eexists. split; [reflexivity|]. split; vm_compute; reflexivity.
Qed.

(* non-vacuity for the OBJECT IDENTIFIER and BIT STRING leaves, in CER (indefinite record) *)
Example schema2_example_oid_bits :
  let s := S2Seq T_SEQUENCE [(false, S2Leaf T_OID LOid); (true, S2Leaf T_BIT_STRING LBits); (true, S2Leaf T_NULL LNull)] in
  let v := VSeq [VBytes [42; 134; 72]; VOpt (Some (VBits 3 [168])); VOpt None] in
  ok2 s /\ exists e, enc2 s v = Some e /\ enc_write Cer e = Ok [48; 128; 6; 3; 42; 134; 72; 3; 2; 3; 168; 0; 0] /\
  decode_src Cer (fun c => mandatory (dec2 (depth2 s) s c)) (pure_src [48; 128; 6; 3; 42; 134; 72; 3; 2; 3; 168; 0; 0] None) = (Ok v, pure_src [] None).
Proof.
  cbv zeta. split.
  - cbn. repeat split; try (left; reflexivity); try (intros _ [E|[E|[]]]; discriminate E); try (intros _ [E|[]]; discriminate E); try (intros _ []); try discriminate.
  - eexists. split; [reflexivity|]. split; vm_compute; reflexivity.
Qed.

(* non-vacuity for the arbitrary-size INTEGER leaves (Integer / Unsigned): -2^71 and 2^64 in a record *)
Example schema2_example_integers :
  let s := S2Seq T_SEQUENCE [(false, S2Leaf T_INTEGER LInteger); (true, S2Leaf (128, 0, 0, 0) LUnsigned)] in
  let v := VSeq [VBytes [128; 0; 0; 0; 0; 0; 0; 0; 0]; VOpt (Some (VBytes [1; 0; 0; 0; 0; 0; 0; 0; 0]))] in
  ok2 s /\ exists e, enc2 s v = Some e /\
    enc_write Der e = Ok [48; 22; 2; 9; 128; 0; 0; 0; 0; 0; 0; 0; 0; 128; 9; 1; 0; 0; 0; 0; 0; 0; 0; 0] /\
  decode_src Der (fun c => mandatory (dec2 (depth2 s) s c))
    (pure_src [48; 22; 2; 9; 128; 0; 0; 0; 0; 0; 0; 0; 0; 128; 9; 1; 0; 0; 0; 0; 0; 0; 0; 0] None) = (Ok v, pure_src [] None).
Proof.
  cbv zeta. split.
  - cbn. repeat split; try (left; reflexivity); try (intros _ [E|[E|[]]]; discriminate E); try (intros _ [E|[]]; discriminate E); try (intros _ []); try discriminate; try (right; right; left; reflexivity).
  - eexists. split; [reflexivity|]. split; vm_compute; reflexivity.
Qed.
