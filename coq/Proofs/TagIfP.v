(* Level A: Tag::take_from_if and LimitedSource::exhausted, as the code performs them (request, slice()[i]
   peeks, advance only on a match), refine the Level-B routines the rest of the development reasons about:
   for every grant policy they deliver the same result and leave the same abstract source, and they never
   look at or advance over an octet no request has granted. *)
Require Import BV.Model.Base BV.Model.SrcB BV.Model.Source BV.Model.Length BV.Model.Tag.
From Coq Require Import Lia ZifyBool ZifyN.
Require Import BV.Proofs.Bits BV.Proofs.SrcBP BV.Proofs.WinP BV.Proofs.SourceP BV.Proofs.TagP.
Arguments N.add : simpl never. Arguments N.sub : simpl never.
Arguments N.ltb : simpl never. Arguments N.leb : simpl never. Arguments N.eqb : simpl never.
Arguments N.min : simpl never. Arguments N.max : simpl never.

(* the conditional tag read decides the same from every legal source *)
Theorem tagif_delivery_independent pol1 pol2 e r1 r2 : raw_ok r1 -> raw_ok r2 -> absA r1 = absA r2 ->
  fst (tagif_A pol1 e r1) = fst (tagif_A pol2 e r2) /\
  absA (snd (tagif_A pol1 e r1)) = absA (snd (tagif_A pol2 e r2)).
Proof.
  intros H1 H2 E. destruct (tagif_refines pol1 e r1 H1) as (A1 & B1 & _).
  destruct (tagif_refines pol2 e r2 H2) as (A2 & B2 & _). rewrite E in *. split; congruence.
Qed.

(* and touches nothing it was not granted: slice()[i] beyond the grant, or advance beyond it, is a Panic of
   the Level-A model, and none occurs *)
Theorem tagif_no_ungranted_access pol e r : raw_ok r -> fst (tagif_A pol e r) <> Panic.
Proof.
  intros Hok HP. destruct (tagif_refines pol e r Hok) as (A1 & _). rewrite HP in A1.
  rewrite (tag_take_from_if_peek_gen e (absA r) eq_refl) in A1.
  destruct (peek_tag (visible (absA r))) as [[[[t c] k]|]|]; try discriminate A1.
  destruct (tag_eqb t e); discriminate A1.
Qed.

(* the model does notice a peek beyond the grant: advancing over an identifier octet nobody requested *)
Lemma tagif_ungranted_advance_panics : fst (advanceA 2 (mkRaw [31; 5; 0] 1 None 0)) = Panic.
Proof. reflexivity. Qed.

(* non-vacuity: a three-octet identifier matched under a miserly and under a generous policy *)
Lemma tagif_example :
  fst (tagif_A (fun _ _ _ => 0) (159, 129, 72, 0) (mkRaw [159; 129; 72; 1; 42] 0 (Some 5) 0)) = Ok (Some false) /\
  fst (tagif_A (fun _ _ av => av) (159, 129, 72, 0) (mkRaw [159; 129; 72; 1; 42] 0 (Some 5) 0)) = Ok (Some false) /\
  rdata (snd (tagif_A (fun _ _ _ => 0) (159, 129, 72, 0) (mkRaw [159; 129; 72; 1; 42] 0 (Some 5) 0))) = [1; 42].
Proof. vm_compute. repeat split; reflexivity. Qed.
