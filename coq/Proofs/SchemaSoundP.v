(* The converse of SchemaP (C05): whatever the typed readers of a schema accept
   in DER mode is exactly the DER encoding of the value they deliver.  Hence
   decode-then-encode is the identity on accepted octets and two different
   octet strings never decode to the same value of a schema. *)
From Coq Require Import Lia ZifyBool ZifyN ZifyNat.
Require Import BV.Model.Base BV.Model.SrcB BV.Model.Length BV.Model.Tag BV.Model.Twos BV.Model.Int
               BV.Model.Content BV.Model.OctStr BV.Model.Encode BV.Model.Prog.
Require Import BV.Proofs.Bits BV.Proofs.SrcBP BV.Proofs.LengthP BV.Proofs.TagP BV.Proofs.ContentP BV.Proofs.OctGrammarP
               BV.Proofs.WinP BV.Proofs.TotalP BV.Proofs.DeltaP BV.Proofs.IntP BV.Proofs.IntEncP
               BV.Proofs.EncodeP BV.Proofs.GrammarP BV.Proofs.EncGrammarP BV.Proofs.TypedP BV.Proofs.OidP BV.Proofs.SchemaP.
Arguments N.add : simpl never. Arguments N.sub : simpl never.
Arguments N.ltb : simpl never. Arguments N.leb : simpl never. Arguments N.eqb : simpl never.
Arguments N.min : simpl never.

(* ---- inverting the expected-tag header step ---- *)
Lemma tag_if_inv e s c s' : nf s -> octets_ok (rem s) = true ->
  tag_take_from_if e s = (Ok (Some c), s') ->
  exists r, rem s = tag_write c e ++ r /\
            s' = mkSrc r (lim_sub (lim s) (len (tag_write c e))) None /\
            lim_ge (lim s) (len (tag_write c e)).
Proof.
  intros Hn Hok. rewrite (tag_take_from_if_peek_gen e s Hn).
  destruct (peek_tag (visible s)) as [[[[t c0] k]|]|] eqn:P; try discriminate.
  destruct (tag_eqb t e) eqn:E; [|discriminate]. apply tag_eqb_eq in E. subst t. intros [= <- <-].
  destruct (peek_tag_len _ _ _ _ P) as (Hk & Hle & Hw).
  pose proof (visible_len s) as [Hv1 Hv2].
  assert (Hdec : exists tl, rem s = visible s ++ tl).
  { rewrite visible_eq. destruct (lim s) as [l|]; [|exists []; rewrite app_nil_r; reflexivity].
    exists (skipN l (rem s)). symmetry. apply firstN_skipN. }
  destruct Hdec as [tl Hdec].
  assert (Hokv : octets_ok (visible s) = true) by (rewrite Hdec in Hok; apply octets_ok_app_l in Hok; exact Hok).
  specialize (Hw Hokv).
  assert (Hf : firstN k (rem s) = tag_write c0 e).
  { rewrite Hdec, firstN_app_le by exact Hle. exact Hw. }
  assert (Hlen : len (tag_write c0 e) = k) by (rewrite <- Hw; apply len_firstN_le; exact Hle).
  exists (skipN k (rem s)). rewrite Hlen. split; [rewrite <- Hf; symmetry; apply firstN_skipN|].
  split; [reflexivity|]. eapply lim_ge_mono; [|exact Hv2]. exact Hle.
Qed.

Lemma pnv_inv_if {T} c e (op : tag -> content -> M (T * content)) s v c' s' :
  nf s -> octets_ok (rem s) = true ->
  process_next_value c (Some e) op s = (Ok (Some v, c'), s') ->
  exists k lw lv r2,
     rem s = tag_write k e ++ lw ++ r2 /\
     length_read_spec (cmd c) (lw ++ r2) = Ok (lv, r2) /\
     lim_ge (lim s) (len (tag_write k e) + len lw) /\
     pnv_tail c op e k lv (mkSrc r2 (lim_sub (lim s) (len (tag_write k e) + len lw)) None) = (Ok (Some v, c'), s').
Proof.
  intros Hn Hok H. destruct s as [d l f]. unfold nf in Hn. cbn in Hn. subst f. cbn [rem lim] in *.
  unfold process_next_value in H.
  apply bind_ok_inv in H as (ex & s0 & H0 & H).
  pose proof (is_exhausted_state _ _ _ _ H0) as ->.
  destruct ex; [discriminate|].
  apply bind_ok_inv in H as (hdr & s1 & H1 & H).
  apply bind_ok_inv in H1 as (o & s1' & H1 & H1'). injection H1' as <- <-.
  destruct o as [k|]; [|discriminate].
  destruct (tag_if_inv e (mkSrc d l None) k s1' (eq_refl : nf (mkSrc d l None)) Hok H1) as (r1 & Hd & -> & Hl1). cbn [rem lim] in *. subst d.
  apply bind_ok_inv in H as (lv & s2 & H2 & H).
  destruct (length_at_limit_inv (cmd c) r1 _ lv s2 (octets_ok_app_r _ _ Hok) H2) as (lw & r2 & -> & Hspec & -> & Hl2).
  exists k, lw, lv, r2. split; [reflexivity|]. split; [exact Hspec|].
  rewrite lim_sub_sub in H. split; [|exact H].
  destruct l as [x|]; cbn [lim_ge lim_sub] in *; [lia|trivial].
Qed.

(* ---- a typed leaf, from the header on ---- *)
Lemma typed_tail_sound {T} (op : mode -> M T) cc tg k lw lv r2 l0 v c' s' :
  Win (op (cmd cc)) -> (forall z, Safe (St true z) (op (cmd cc)) (fun _ => St true z)) ->
  tag_eqb tg END_OF_VALUE = false ->
  length_read_spec (cmd cc) (lw ++ r2) = Ok (lv, r2) ->
  pnv_tail cc (prim_closure op) tg k lv (mkSrc r2 l0 None) = (Ok (Some v, c'), s') ->
  c' = cc /\ k = false /\ exists c,
    lenoct (cmd cc) (len c) lw /\ r2 = c ++ rem s' /\
    s' = mkSrc (rem s') (lim_sub l0 (len c)) None /\ lim_ge l0 (len c) /\
    prim_decode (op (cmd cc)) c = Ok v.
Proof.
  intros Hw Hst He Hspec Ht.
  unfold pnv_tail in Ht. rewrite He in Ht.
  destruct lv as [n|].
  2:{ destruct (negb k || mode_eqb (cmd cc) Der); [discriminate|].
      apply bind_ok_inv in Ht as ([r ct'] & s4 & H4 & _). destruct k; discriminate. }
  apply bind_ok_inv in Ht as (old & s1 & H1 & Ht). unfold get_lim in H1. injection H1 as <- <-. cbn [lim] in Ht.
  apply bind_ok_inv in Ht as ([] & s2 & H2 & Ht). apply lim_check_inv in H2 as [-> Hl2].
  apply bind_ok_inv in Ht as ([] & s3 & H3 & Ht). unfold set_limit in H3. cbn [rem flt] in H3. injection H3 as <-.
  apply bind_ok_inv in Ht as ([] & s3' & H3 & Ht).
  assert (Hcer : s3' = mkSrc r2 (Some n) None).
  { destruct (k && mode_eqb (cmd cc) Cer); [discriminate|]. injection H3 as <-. reflexivity. }
  subst s3'. cbv zeta in Ht.
  apply bind_ok_inv in Ht as ([r ct'] & s4 & H4 & Ht).
  destruct k; [discriminate|]. cbn [prim_closure] in H4.
  apply bind_ok_inv in H4 as (v0 & s4' & H4 & H4'). injection H4' as <- <- <-.
  apply bind_ok_inv in Ht as ([] & s5 & H5 & Ht).
  apply bind_ok_inv in Ht as ([] & s6 & H6 & Ht). injection Ht as <- <- <-.
  unfold set_limit in H6. injection H6 as <-.
  pose proof (Hst ((Z.of_N (len r2) - Z.of_N n)%Z, n) (mkSrc r2 (Some n) None) eq_refl) as HS.
  rewrite H4 in HS. destruct HS as (Hn4 & [Hl4 Hd4]).
  { split; [reflexivity|]. unfold Dl. cbn [lim rem fst snd]. lia. }
  cbn [content_exhausted] in H5.
  unfold L, lk in Hl4. destruct (lim s4') as [l4|] eqn:El4; [|discriminate].
  assert (Hl40 : l4 = 0).
  { unfold src_exhausted in H5. rewrite El4 in H5. destruct l4; [reflexivity|discriminate]. }
  subst l4. unfold Dl in Hd4. rewrite El4 in Hd4. cbn [fst snd] in Hd4.
  assert (Hfit : n <= len r2) by lia.
  set (c := firstN n r2). set (rest := skipN n r2).
  assert (Hr2 : r2 = c ++ rest) by (symmetry; apply firstN_skipN).
  assert (Hc : len c = n) by (apply len_firstN_le; exact Hfit).
  assert (Hwin : mkSrc r2 (Some n) None = W c rest None) by (unfold W; rewrite <- Hr2, Hc; reflexivity).
  rewrite Hwin in H4. pose proof (Hw c rest [] None) as HW. rewrite H4 in HW.
  destruct HW as (k & f1 & Hk & -> & E2).
  rewrite src_exhausted_W in H5. destruct (len (skipN k c) =? 0) eqn:E0; [|discriminate]. injection H5 as <-.
  assert (Hnil : skipN k c = []) by (destruct (skipN k c); [reflexivity|rewrite len_cons in E0; lia]).
  unfold nf, W in Hn4. cbn [flt] in Hn4. subst f1.
  split; [reflexivity|]. split; [reflexivity|]. exists c.
  split; [rewrite Hc; intro r'; eapply length_spec_indep; eauto|].
  unfold W. rewrite Hnil. cbn [app rem lim flt].
  split; [exact Hr2|]. split; [rewrite Hc; reflexivity|]. split; [rewrite Hc; exact Hl2|].
  unfold prim_decode. change (pure_src c (Some (len c))) with (mkSrc c (Some (len c)) None).
  rewrite <- (W_nil_r c None). unfold bind at 1. rewrite E2. unfold bind at 1.
  rewrite src_exhausted_W, Hnil. reflexivity.
Qed.

(* ---- the leaf laws in the accepting direction ---- *)
(* BIT STRING leaves are left out here: the schema encoder is restricted to the 999 data octets that
   every mode reads back (SchemaP.lenc), while DER accepts longer ones; the leaf itself is C05_bitstring_canonical *)
Definition kind_ok (k : leafkind) : Prop := match k with LInt ty => ty < 10 | LBits => False | _ => True end.
Fixpoint kinds_ok (s : schema) : Prop :=
  match s with
  | SLeaf _ k => kind_ok k
  | SSeq _ fs => (fix go (l : list schema) : Prop := match l with [] => True | x :: r => kinds_ok x /\ go r end) fs
  end.
Fixpoint kinds_ok_l (l : list schema) : Prop := match l with [] => True | x :: r => kinds_ok x /\ kinds_ok_l r end.
Lemma kinds_ok_seq t fs : kinds_ok (SSeq t fs) <-> kinds_ok_l fs.
Proof. cbn [kinds_ok]. induction fs as [|x r IH]; cbn [kinds_ok_l]; tauto. Qed.

Lemma leaf_canon k v c : kind_ok k -> octets_ok c = true ->
  prim_decode (lop k Der) c = Ok v -> lenc k v = Some c.
Proof.
  destruct k as [ty| | | | | |]; cbn [lop kind_ok]; intros Hk Hok H; [| | | |contradiction| |].
  - rewrite prim_decode_map in H. destruct (prim_decode (int_accessor ty) c) as [x| | | |] eqn:E; try discriminate.
    injection H as <-. destruct (int_accessor_sound ty c x Hk Hok E) as (_ & _ & Hr).
    cbn [lenc]. replace (ty <? 10) with true by lia. rewrite Hr. cbn [andb]. f_equal.
    apply int_der_canonical; assumption.
  - rewrite prim_decode_map in H. destruct (prim_decode (to_bool Der) c) as [b| | | |] eqn:E; try discriminate.
    injection H as <-. cbn [lenc]. f_equal. apply bool_der_canonical; assumption.
  - rewrite (prim_decode_map to_null (fun _ => VNull)) in H. rewrite to_null_spec in H.
    destruct c; [|discriminate]. injection H as <-. reflexivity.
  - rewrite prim_decode_map, (oid_from_prim_spec c Hok) in H. destruct (oid_ok c) eqn:E; [|discriminate].
    injection H as <-. cbn [lenc]. rewrite Hok, E. reflexivity.
  - rewrite prim_decode_map, (integer_from_prim_spec c Hok) in H. destruct (minimal c) eqn:E; [|discriminate].
    injection H as <-. cbn [lenc]. rewrite Hok, E. reflexivity.
  - rewrite prim_decode_map, (unsigned_int_from_prim_spec c Hok) in H.
    destruct (minimal c && nonneg_head c) eqn:E; [|discriminate].
    injection H as <-. cbn [lenc]. rewrite Hok, E. reflexivity.
Qed.

(* ---- soundness of the typed readers of a schema, DER ---- *)
Definition SD (s : schema) : Prop :=
  forall fuel c src v c' src', schema_ok s -> kinds_ok s -> nf src -> octets_ok (rem src) = true -> cmd c = Der ->
  dec_s fuel s c src = (Ok (v, c'), src') ->
  nf src' /\ c' = c /\ exists e d, enc_s s v = Some e /\ enc_write Der e = Ok d /\
    rem src = d ++ rem src' /\ consumed src src' (len d).

Definition SDL (fs : list schema) : Prop :=
  forall fuel c src vs c' src', schemas_ok fs -> kinds_ok_l fs -> nf src -> octets_ok (rem src) = true -> cmd c = Der ->
  dec_l fuel fs c src = (Ok (vs, c'), src') ->
  nf src' /\ c' = c /\ exists es ds, enc_l fs vs = Some es /\ enc_write Der (ESeq es) = Ok ds /\
    rem src = ds ++ rem src' /\ consumed src src' (len ds).

Lemma enc_write_seq_app m e er d1 ds2 : enc_write m e = Ok d1 -> enc_write m (ESeq er) = Ok ds2 ->
  enc_write m (ESeq (e :: er)) = Ok (d1 ++ ds2).
Proof.
  intros H1 H2. rewrite enc_write_seq in *. cbn [fold_right]. rewrite H1. cbn [res_bind]. rewrite H2. reflexivity.
Qed.

Lemma SDL_of_Forall fs : Forall SD fs -> SDL fs.
Proof.
  induction 1 as [|s r Hs Hr IH]; intros fuel c src vs c' src' Hok Hk Hn Ho Hm H.
  - destruct fuel as [|f]; [discriminate|]. cbn [dec_l] in H. injection H as <- <- <-.
    split; [exact Hn|]. split; [reflexivity|]. exists [], []. split; [reflexivity|]. split; [reflexivity|].
    split; [reflexivity|apply consumed_0].
  - destruct fuel as [|f]; [discriminate|]. cbn [dec_l] in H.
    apply bind_ok_inv in H as ([v c1] & s1 & H1 & H).
    apply bind_ok_inv in H as ([vr c2] & s2 & H2 & H). injection H as <- <- <-.
    destruct Hok as [Hok1 Hok2]. destruct Hk as [Hk1 Hk2].
    destruct (Hs f c src v c1 s1 Hok1 Hk1 Hn Ho Hm H1) as (Hn1 & -> & e & d & He & Hw & Hrem & Hc).
    assert (Ho1 : octets_ok (rem s1) = true) by (rewrite Hrem in Ho; apply octets_ok_app_r in Ho; exact Ho).
    destruct (IH f c s1 vr c2 s2 Hok2 Hk2 Hn1 Ho1 Hm H2) as (Hn2 & -> & es & ds & Hes & Hws & Hrem2 & Hc2).
    split; [exact Hn2|]. split; [reflexivity|]. exists (e :: es), (d ++ ds).
    split; [cbn [enc_l]; rewrite He, Hes; reflexivity|].
    split; [apply enc_write_seq_app; assumption|].
    split; [rewrite Hrem, Hrem2, app_assoc; reflexivity|].
    rewrite len_app. eapply consumed_trans; eassumption.
Qed.

Lemma SD_leaf t k : SD (SLeaf t k).
Proof.
  intros fuel c src v c' src' Hok Hk Hn Ho Hm H. destruct fuel as [|f]; [discriminate|]. cbn [dec_s] in H.
  unfold mandatory in H. apply bind_ok_inv in H as ([o c1] & s1 & H1 & H).
  destruct o as [v0|]; [|discriminate]. injection H as <- <- <-.
  destruct Hok as [Hleg Heov]. cbn [kinds_ok] in Hk.
  destruct (pnv_inv_if c t _ src v0 c1 s1 Hn Ho H1) as (k0 & lw & lv & r2 & Hrem & Hspec & Hlg & Ht).
  destruct (typed_tail_sound (lop k) c t k0 lw lv r2 _ v0 c1 s1 (Win_lop k (cmd c)) (St_lop k (cmd c)) Heov Hspec Ht)
    as (-> & -> & cc & Hlo & Hr2 & Hs1 & Hl1 & Hdec).
  rewrite Hm in *.
  assert (Hocc : octets_ok cc = true).
  { rewrite Hrem, Hr2 in Ho. apply octets_ok_app_r in Ho. apply octets_ok_app_r in Ho. apply octets_ok_app_l in Ho. exact Ho. }
  pose proof (leaf_canon k v0 cc Hk Hocc Hdec) as Hlenc.
  pose proof (lenoct_strict_is_written Der (len cc) lw ltac:(discriminate) Hlo) as Hlw.
  split; [rewrite Hs1; reflexivity|]. split; [reflexivity|].
  exists (EPrim t cc), (tag_write false t ++ lw ++ cc).
  split; [cbn [enc_s]; rewrite Hlenc; reflexivity|].
  split; [cbn [enc_write]; unfold tlv_write; rewrite Hlw; reflexivity|].
  split; [rewrite Hrem, Hr2, <- !app_assoc; reflexivity|].
  unfold consumed. rewrite Hs1. cbn [lim]. rewrite lim_sub_sub, !len_app.
  split; [f_equal; lia|].
  destruct (lim src) as [x|]; cbn [lim_ge lim_sub] in *; [lia|trivial].
Qed.

Lemma SD_seq t fs : Forall SD fs -> SD (SSeq t fs).
Proof.
  intros HF fuel c src v c' src' Hok Hk Hn Ho Hm H. pose proof (SDL_of_Forall fs HF) as HL.
  destruct fuel as [|f]; [discriminate|]. cbn [dec_s] in H.
  unfold mandatory in H. apply bind_ok_inv in H as ([o c1] & s1 & H1 & H).
  destruct o as [v0|]; [|discriminate]. injection H as <- <- <-.
  apply schema_ok_seq in Hok as [[Hleg Heov] Hoks]. apply kinds_ok_seq in Hk.
  destruct (pnv_inv_if c t _ src v0 c1 s1 Hn Ho H1) as (k & lw & lv & r2 & Hrem & Hspec & Hlg & Ht).
  set (a := len (tag_write k t) + len lw) in *.
  assert (Hok2 : octets_ok r2 = true).
  { rewrite Hrem in Ho. apply octets_ok_app_r in Ho. apply octets_ok_app_r in Ho. exact Ho. }
  unfold pnv_tail in Ht. rewrite Heov in Ht.
  destruct lv as [n|].
  2:{ rewrite Hm in Ht. cbn [mode_eqb] in Ht. rewrite orb_true_r in Ht. discriminate. }
  apply bind_ok_inv in Ht as (old & s1' & H1' & Ht). unfold get_lim in H1'. injection H1' as <- <-. cbn [lim] in Ht.
  set (l2 := lim_sub (lim src) a) in *.
  apply bind_ok_inv in Ht as ([] & s2 & H2 & Ht). apply lim_check_inv in H2 as [-> Hl2].
  apply bind_ok_inv in Ht as ([] & s3 & H3 & Ht). unfold set_limit in H3. cbn [rem flt] in H3. injection H3 as <-.
  apply bind_ok_inv in Ht as ([] & s3' & H3 & Ht).
  assert (Hcer : s3' = mkSrc r2 (Some n) None).
  { destruct (k && mode_eqb (cmd c) Cer); [discriminate|]. injection H3 as <-. reflexivity. }
  subst s3'. cbv zeta in Ht.
  apply bind_ok_inv in Ht as ([r ct'] & s4 & H4 & Ht).
  apply bind_ok_inv in Ht as ([] & s5 & H5 & Ht).
  apply bind_ok_inv in Ht as ([] & s6 & H6 & Ht). injection Ht as <- <- <-.
  unfold set_limit in H6. injection H6 as <-.
  assert (Hlen : lenoct (cmd c) n lw) by (intro r'; eapply length_spec_indep; eauto).
  destruct k; [|discriminate].
  apply bind_ok_inv in H4 as ([vs c''] & s4' & H4 & H4'). injection H4' as <- <- <-.
  destruct (HL f (mkCons Definite (cmd c)) (mkSrc r2 (Some n) None) vs c'' s4' Hoks Hk eq_refl Hok2 Hm H4)
    as (Hn4 & -> & es & ds & Hes & Hws & Hr2 & [Hc1 Hc2]).
  cbn [rem lim] in Hr2, Hc1, Hc2.
  cbn [content_exhausted cons_exhausted cst] in H5.
  assert (Hnn : n = len ds).
  { unfold src_exhausted in H5. rewrite Hc1 in H5. cbn [lim_sub lim_ge] in *.
    destruct (n - len ds) eqn:E; [lia|discriminate]. }
  apply (src_exhausted_ok_state _ _ Hn4) in H5. subst s5.
  rewrite Hm in Hlen.
  pose proof (lenoct_strict_is_written Der n lw ltac:(discriminate) Hlen) as Hlw.
  split; [exact Hn4|]. split; [reflexivity|].
  exists (ECons t (ESeq es)), (tag_write true t ++ lw ++ ds).
  split; [rewrite enc_s_seq, Hes; reflexivity|].
  split.
  { remember (ESeq es) as be eqn:Ebe. cbn [enc_write]. subst be.
    rewrite enc_len_is_written, Hws. cbn [res_map res_bind]. rewrite <- Hnn, Hlw. cbn [res_bind res_map]. reflexivity. }
  cbn [rem lim].
  split; [rewrite Hrem, Hr2, <- !app_assoc; reflexivity|].
  unfold consumed. cbn [lim]. unfold l2. rewrite lim_sub_sub, !len_app. unfold a.
  split; [f_equal; lia|]. unfold l2, a in *.
  destruct (lim src) as [x|]; cbn [lim_ge lim_sub] in *; [lia|trivial].
Qed.

Theorem schema_sound s : SD s.
Proof. induction s using schema_ind'; [apply SD_leaf|apply SD_seq; assumption]. Qed.

(* for a whole input: the octets consumed are the DER encoding of the value
   (Constructed::decode leaves octets behind the value in the source) *)
Theorem schema_der_canonical s v d s1 : schema_ok s -> kinds_ok s -> octets_ok d = true ->
  decode_src Der (dec_s (sdepth s) s) (pure_src d None) = (Ok v, s1) ->
  exists e d0, enc_s s v = Some e /\ enc_write Der e = Ok d0 /\ d = d0 ++ rem s1.
Proof.
  intros Hok Hk Ho H. unfold decode_src in H.
  apply bind_ok_inv in H as ([v0 c1] & s0 & E & H).
  destruct (schema_sound s (sdepth s) (mkCons Unbounded Der) (pure_src d None) v0 c1 s0 Hok Hk
              (eq_refl : nf (pure_src d None)) Ho eq_refl E)
    as (Hn1 & -> & e & d0 & He & Hw & Hrem & Hc).
  cbn [rem pure_src] in Hrem. cbn [cons_exhausted cst] in H.
  unfold bind, ret in H. injection H as <- <-. eauto.
Qed.

Corollary schema_der_injective s v d1 d2 : schema_ok s -> kinds_ok s ->
  octets_ok d1 = true -> octets_ok d2 = true ->
  decode_src Der (dec_s (sdepth s) s) (pure_src d1 None) = (Ok v, pure_src [] None) ->
  decode_src Der (dec_s (sdepth s) s) (pure_src d2 None) = (Ok v, pure_src [] None) ->
  d1 = d2.
Proof.
  intros Hok Hk Ho1 Ho2 H1 H2.
  destruct (schema_der_canonical s v d1 _ Hok Hk Ho1 H1) as (e1 & a1 & He1 & Hw1 & ->).
  destruct (schema_der_canonical s v d2 _ Hok Hk Ho2 H2) as (e2 & a2 & He2 & Hw2 & ->).
  rewrite He1 in He2. injection He2 as <-. rewrite Hw1 in Hw2. injection Hw2 as <-. reflexivity.
Qed.

(* decode . encode . decode: re-encoding what was accepted and reading it again gives the same value *)
Corollary schema_der_reencode s v d s1 : schema_ok s -> kinds_ok s -> octets_ok d = true ->
  decode_src Der (dec_s (sdepth s) s) (pure_src d None) = (Ok v, s1) ->
  exists e d0, enc_s s v = Some e /\ enc_write Der e = Ok d0 /\ d = d0 ++ rem s1 /\
    decode_src Der (dec_s (sdepth s) s) (pure_src d0 None) = (Ok v, pure_src [] None).
Proof.
  intros Hok Hk Ho H. destruct (schema_der_canonical s v d s1 Hok Hk Ho H) as (e & d0 & He & Hw & Hd).
  exists e, d0. repeat split; try assumption.
  apply (schema_roundtrip_top s v e Der Der d0 Hok He Hw); [|left; reflexivity].
  rewrite Hd in Ho. apply octets_ok_app_l in Ho. exact Ho.
Qed.

(* non-vacuity: the readers of a nested schema accept a concrete DER string *)
Example schema_sound_example :
  let s := SSeq T_SEQUENCE [SLeaf T_INTEGER (LInt 2); SSeq T_SET [SLeaf T_BOOLEAN LBool; SLeaf T_NULL LNull]] in
  schema_ok s /\ kinds_ok s /\
  decode_src Der (dec_s (sdepth s) s) (pure_src [48; 11; 2; 2; 254; 212; 49; 5; 1; 1; 255; 5; 0] None)
  = (Ok (VSeq [VInt (-300); VSeq [VBool true; VNull]]), pure_src [] None).
Proof.
  cbv zeta. split; [|split].
  - cbn. repeat split; try (left; reflexivity).
  - cbn. repeat split; lia.
  - vm_compute. reflexivity.
Qed.
