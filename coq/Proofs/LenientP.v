(* C03, known finding D24, exhibited in the model: caller code that swallows the error of a failed read inside
   an INDEFINITE-length value and carries on. The position is left inside the failed member, nothing bounds
   what the following reads take for members, and an end-of-contents met that way closes the enclosing value:
   the enclosing read succeeds although its content was not consumed, and what is read next is not what
   follows it in the input. (Inside a definite-length value the limit keeps the books since fixes 0fd86fc
   and 89c8b19; there the model's state after an error is not the code's, and nothing is claimed.) *)
Require Import BV.Model.Base BV.Model.SrcB BV.Model.Length BV.Model.Tag BV.Model.Content.
Require Import BV.Proofs.GrammarP.

(* swallowing a content error: what a caller does that writes `let _ = seq.take_...();`. The model's
   process_next_value leaves the limit of the failed member in place (the repair 0fd86fc is not modelled: no
   modelled program ever looks at a state after an error); the code puts the enclosing limit back, and so does
   this combinator: on failure the limit becomes what it was before the read (inside an indefinite-length value
   at the top level: none) *)
Definition swallow {A} (m : M A) (dflt : A) : M A :=
  fun s => match m s with (CErr, s') => (Ok dflt, mkSrc (rem s') (lim s) (flt s')) | r => r end.

(* inside the SEQUENCE: a read of the first member (expected tag [UNIVERSAL 31 ..] as it stands) whose closure
   fails before touching the content; the error is swallowed; one more generic read; success *)
Definition lenient_body (c : cons) : M (unit * cons) :=
  x <- swallow (r <- process_next_value c (Some (31, 244, 108, 0)) (fun _ _ => @cerr (unit * content)) ;; ret (snd r)) c ;;
  y <- process_next_value x None (rd 5) ;;
  ret (tt, snd y).

(* the whole caller: the SEQUENCE, then the next value generically (None if that read fails) *)
Definition lenient_prog (c : cons) : M (option unit * option tlv) :=
  a <- process_next_value c (Some T_SEQUENCE) (as_cons lenient_body) ;;
  b <- swallow (r <- process_next_value (snd a) None (rd 5) ;; ret (fst r)) None ;;
  ret (fst a, b).

(* CER: 30 80 { [1F F4 6C] 05 07 05 D7 C1 51 ; 2C 80 00 00 } 00 00 ; DF 7F 01 5A *)
Definition lenient_input : list N :=
  [48; 128; 31; 244; 108; 5; 7; 5; 215; 193; 81; 44; 128; 0; 0; 0; 0; 223; 127; 1; 90].

(* the SEQUENCE is delivered - Some tt: the enclosing read succeeded although the second member and the real
   end-of-contents were never read - and the read after it does not find the private-tagged sibling
   DF 7F 01 5A that follows the SEQUENCE in the input: it fails on the SEQUENCE's own end-of-contents,
   which is still in the way *)
Theorem lenient_indefinite_witness :
  fst (lenient_prog (mkCons Unbounded Cer) (pure_src lenient_input None)) = Ok (Some tt, None) /\
  (* read conventionally, the same input delivers the SEQUENCE and then the sibling *)
  fst ((a <- process_next_value (mkCons Unbounded Cer) (Some T_SEQUENCE) (as_cons (fun c => r <- read_all 5 c ;; ret (tt, snd r))) ;;
        b <- process_next_value (snd a) None (rd 5) ;; ret (fst a, fst b)) (pure_src lenient_input None))
  = Ok (Some tt, Some (TPrim (223, 127, 0, 0) [90])).
Proof. vm_compute. split; reflexivity. Qed.
