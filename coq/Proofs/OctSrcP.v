(* The octet string as a decoding source (OctetStringSource, properties C16, C07, C01): over a value whose
   segment walk succeeds (every accepted octet string, OctGrammarP) the source never reaches its unwraps and
   unreachable!()s, presents exactly the string's octets - the concatenation of its primitive segments -
   and honours the Source contract: request(n) grants at least min(n, what is left), never more than is
   left, slice() is a prefix of what is left, advance(k) drops k octets. *)
From Coq Require Import Lia ZifyBool ZifyN ZifyNat.
Require Import BV.Model.Base BV.Model.SrcB BV.Model.Length BV.Model.Tag BV.Model.Content BV.Model.OctStr.
Require Import BV.Proofs.Bits BV.Proofs.SrcBP BV.Proofs.LengthP BV.Proofs.TagP BV.Proofs.ContentP
               BV.Proofs.WinP BV.Proofs.GrammarP BV.Proofs.SkipP BV.Proofs.TermP BV.Proofs.OctGrammarP BV.Proofs.OctCerP.
Arguments N.add : simpl never. Arguments N.sub : simpl never.
Arguments N.ltb : simpl never. Arguments N.leb : simpl never. Arguments N.eqb : simpl never.
Arguments N.min : simpl never.

(* the accumulator of the walker only collects *)
Lemma seg_walk_acc fuel : forall d acc,
  seg_walk fuel d acc = res_map (fun s => rev acc ++ s) (seg_walk fuel d []).
Proof.
  induction fuel as [|f IH]; intros d acc; [reflexivity|].
  destruct d as [|x d'] eqn:Ed.
  { cbn [seg_walk res_map rev app]. rewrite app_nil_r. reflexivity. }
  rewrite <- Ed. assert (Hne : d <> []) by (subst d; discriminate). clear Ed.
  rewrite !(seg_walk_S f d _ Hne).
  destruct (tag_take_from (pure_src d None)) as [[[t k]| | | |] s1]; try reflexivity.
  destruct (length_take_from Ber s1) as [[l| | | |] s2]; try reflexivity.
  destruct (tag_eqb t T_OCTET_STRING).
  - destruct k; [apply IH|]. destruct l as [n|]; [|reflexivity].
    destruct (len (rem s2) <? n); [reflexivity|].
    rewrite (IH _ (firstN n (rem s2) :: acc)), (IH _ [firstN n (rem s2)]).
    destruct (seg_walk f (skipN n (rem s2)) []); cbn [res_map rev app]; try reflexivity.
    rewrite <- app_assoc. reflexivity.
  - destruct (tag_eqb t END_OF_VALUE); [apply IH|reflexivity].
Qed.

(* headers shorten what is left *)
Lemma header_shrinks d t k s1 l s2 :
  tag_take_opt_from (pure_src d None) = (Ok (Some (t, k)), s1) -> length_take_from Ber s1 = (Ok l, s2) ->
  (length (rem s2) < length d)%nat.
Proof.
  intros H1 H2.
  pose proof (Tm_tag_opt (len d) (pure_src d None) eq_refl ltac:(cbn [rem pure_src]; lia)) as T1. rewrite H1 in T1.
  destruct T1 as [Hn1 Hd1]. cbn [dopt rem pure_src] in Hd1.
  pose proof (Tm_length (len (rem s1)) Ber s1 Hn1 ltac:(lia)) as T2. rewrite H2 in T2. destruct T2 as [_ Hd2].
  unfold len in *. lia.
Qed.

(* one step of next_current against the walk *)
Lemma seg_next_spec fw : forall d segs fn, seg_walk fw d [] = Ok segs -> (length d < fn)%nat ->
  match seg_next fn d with
  | Ok None => segs = []
  | Ok (Some (b, r)) => exists segs' fw', segs = b :: segs' /\ seg_walk fw' r [] = Ok segs' /\
                          (length r < length d)%nat
  | _ => False
  end.
Proof.
  induction fw as [|f IH]; intros d segs fn Hw Hfn; [discriminate|].
  destruct fn as [|fn']; [lia|].
  destruct d as [|x d'] eqn:Ed.
  { cbn [seg_walk rev] in Hw. injection Hw as <-. reflexivity. }
  rewrite <- Ed in *. assert (Hne : d <> []) by (subst d; discriminate). clear Ed.
  rewrite (seg_walk_S f d _ Hne) in Hw. cbn [seg_next].
  destruct (tag_take_opt_from (pure_src d None)) as [[[[t k]|]| | | |] s1] eqn:E1.
  - rewrite (tag_opt_some_is_take _ _ _ E1) in Hw.
    destruct (length_take_from Ber s1) as [[l| | | |] s2] eqn:E2; try discriminate.
    pose proof (header_shrinks d t k s1 l s2 E1 E2) as Hs.
    destruct (tag_eqb t T_OCTET_STRING).
    + destruct k.
      * specialize (IH (rem s2) segs fn' Hw ltac:(lia)).
        destruct (seg_next fn' (rem s2)) as [[[b r]|]| | | |]; try exact IH.
        destruct IH as (segs' & fw' & H1 & H2 & H3). exists segs', fw'. repeat split; try assumption. lia.
      * destruct l as [n|]; [|discriminate]. destruct (len (rem s2) <? n) eqn:El; [discriminate|].
        rewrite seg_walk_acc in Hw. destruct (seg_walk f (skipN n (rem s2)) []) as [segs'| | | |] eqn:Ew; try discriminate.
        cbn [res_map rev app] in Hw. injection Hw as <-.
        exists segs', f. repeat split; try assumption.
        assert (length (skipN n (rem s2)) <= length (rem s2))%nat by (unfold skipN; rewrite skipn_length; lia). lia.
    + destruct (tag_eqb t END_OF_VALUE); [|discriminate].
      specialize (IH (rem s2) segs fn' Hw ltac:(lia)).
      destruct (seg_next fn' (rem s2)) as [[[b r]|]| | | |]; try exact IH.
      destruct IH as (segs' & fw' & H1 & H2 & H3). exists segs', fw'. repeat split; try assumption. lia.
  - (* nothing read from a non-empty remainder: the walker would have failed *)
    unfold tag_take_from, bind in Hw. rewrite E1 in Hw. discriminate.
  - unfold tag_take_from, bind in Hw. rewrite E1 in Hw. discriminate.
  - unfold tag_take_from, bind in Hw. rewrite E1 in Hw. discriminate.
  - unfold tag_take_from, bind in Hw. rewrite E1 in Hw. discriminate.
  - unfold tag_take_from, bind in Hw. rewrite E1 in Hw. discriminate.
Qed.

(* ---- the source ---- *)
(* what the source still has to deliver: `current`, then the primitive segments of the remainder *)
Definition oss_has (st : oss) (data : list N) : Prop :=
  exists fw segs, seg_walk fw (orem st) [] = Ok segs /\ data = ocur st ++ concat segs.

Lemma oss_fill_spec fuel : forall want cur remd fw segs,
  seg_walk fw remd [] = Ok segs -> (length remd < fuel)%nat ->
  exists st', oss_fill fuel want cur remd = Ok st' /\ oss_has st' (cur ++ concat segs) /\
    N.min want (len (cur ++ concat segs)) <= len (ocur st') /\
    exists extra, ocur st' = cur ++ extra.
Proof.
  induction fuel as [|f IH]; intros want cur remd fw segs Hw Hf; [lia|].
  cbn [oss_fill]. destruct (want <=? len cur) eqn:Ewant.
  - exists (mkOss cur remd). split; [reflexivity|]. split; [exists fw, segs; auto|].
    cbn [ocur]. split; [lia|exists []; rewrite app_nil_r; reflexivity].
  - pose proof (seg_next_spec fw remd segs (S (length remd)) Hw ltac:(lia)) as Hn.
    destruct (seg_next (S (length remd)) remd) as [[[b r]|]| | | |]; try contradiction.
    + destruct Hn as (segs' & fw' & -> & Hw' & Hlen).
      destruct (IH want (cur ++ b) r fw' segs' Hw' ltac:(lia)) as (st' & Hfill & Hhas & Hmin & (extra & Hex)).
      exists st'. split; [exact Hfill|]. cbn [concat]. rewrite app_assoc. split; [exact Hhas|]. split; [exact Hmin|].
      exists (b ++ extra). rewrite Hex, app_assoc. reflexivity.
    + subst segs. exists (mkOss cur []). split; [reflexivity|]. cbn [concat]. rewrite app_nil_r.
      split; [exists 1%nat, []; cbn [orem ocur concat]; rewrite app_nil_r; auto|].
      cbn [ocur]. split; [lia|exists []; rewrite app_nil_r; reflexivity].
Qed.

(* request: the Source contract, and no unwrap/unreachable is reached *)
Theorem oss_request_contract want st data : oss_has st data ->
  exists g st', oss_request want st = Ok (g, st') /\ oss_has st' data /\
    g = len (oss_slice st') /\ N.min want (len data) <= g /\ g <= len data /\
    (exists rest, data = oss_slice st' ++ rest) /\ (exists extra, oss_slice st' = oss_slice st ++ extra).
Proof.
  intros (fw & segs & Hw & ->). unfold oss_request, oss_slice.
  destruct ((len (ocur st) <? want) && negb (len (orem st) =? 0)) eqn:Ec.
  - destruct (oss_fill_spec (S (length (orem st))) want (ocur st) (orem st) fw segs Hw ltac:(lia))
      as (st' & Hfill & Hhas & Hmin & (extra & Hex)).
    rewrite Hfill. exists (len (ocur st')), st'. split; [reflexivity|]. split; [exact Hhas|]. split; [reflexivity|].
    split; [exact Hmin|]. destruct Hhas as (fw' & segs' & Hw' & Hd). rewrite Hd.
    split; [rewrite len_app; lia|]. split; [exists (concat segs'); reflexivity|exists extra; exact Hex].
  - exists (len (ocur st)), st. split; [reflexivity|]. split; [exists fw, segs; auto|]. split; [reflexivity|].
    rewrite len_app. split.
    + apply andb_false_iff in Ec as [Ec|Ec]; [lia|].
      (* nothing is left in the remainder: current is all there is *)
      assert (orem st = []) by (destruct (orem st); [reflexivity|rewrite len_cons in Ec; lia]).
      rewrite H in Hw. destruct fw; [discriminate|]. cbn [seg_walk rev] in Hw. injection Hw as <-.
      cbn [concat]. change (len (@nil N)) with 0. lia.
    + split; [lia|]. split; [exists (concat segs); reflexivity|exists []; rewrite app_nil_r; reflexivity].
Qed.

(* advance within what slice() shows *)
Theorem oss_advance_spec n st data : oss_has st data -> n <= len (oss_slice st) ->
  exists st', oss_advance n st = Ok st' /\ oss_has st' (skipN n data) /\ oss_slice st' = skipN n (oss_slice st).
Proof.
  intros (fw & segs & Hw & ->) Hn. unfold oss_advance, oss_slice in *.
  replace (len (ocur st) <? n) with false by lia.
  exists (mkOss (skipN n (ocur st)) (orem st)). split; [reflexivity|]. split; [|reflexivity].
  exists fw, segs. split; [exact Hw|]. cbn [ocur]. unfold skipN, len in *. rewrite skipn_app.
  replace (N.to_nat n - length (ocur st))%nat with 0%nat by lia. reflexivity.
Qed.
(* and the documented assertion: advancing past what was shown panics *)
Lemma oss_advance_beyond n st : len (oss_slice st) < n -> oss_advance n st = Panic.
Proof. intro H. unfold oss_advance, oss_slice in *. replace (len (ocur st) <? n) with true by lia. reflexivity. Qed.

(* a fresh source over a string whose octets are defined has exactly those octets to deliver *)
Theorem oss_new_has o x : os_octets o = Ok x -> oss_has (oss_new o) x.
Proof.
  unfold os_octets, os_segments. destruct o as [b|d]; cbn [oss_new].
  - intros [= <-]. exists 1%nat, []. split; [reflexivity|]. cbn [ocur concat]. rewrite app_nil_r.
    destruct b; cbn [concat]; rewrite ?app_nil_r; reflexivity.
  - destruct (seg_walk (S (length d)) d []) as [segs| | | |] eqn:E; try discriminate. intros [= <-].
    exists (S (length d)), segs. auto.
Qed.

(* every constructed octet string the BER reader accepts, and every primitive one, is such a source *)
Theorem oss_of_accepted_ber fuel c s o c' s' : nf s -> octets_ok (rem s) = true ->
  take_constructed_ber fuel c s = (Ok (o, c'), s') ->
  exists x, os_octets o = Ok x /\ oss_has (oss_new o) x.
Proof.
  intros Hn Ho H. destruct (constructed_ber_is_segments fuel c s o c' s' Hn Ho H) as (ts & _ & _ & Hoct & _).
  exists (concat (leaves_l ts)). split; [exact Hoct|apply oss_new_has, Hoct].
Qed.
(* and every constructed octet string the CER reader accepts: its content is a grammar string too *)
Lemma cer_segs_grammar segs ds : cer_segs segs ds ->
  encs Cer (map (TPrim T_OCTET_STRING) segs) ds /\
  accepts octet_filter (traces (map (TPrim T_OCTET_STRING) segs) 0) = true /\
  leaves_l (map (TPrim T_OCTET_STRING) segs) = segs.
Proof.
  induction 1 as [|c r lw ds Hl Hr IH]; [repeat split; constructor|].
  destruct IH as (He & Ha & Hlv). cbn [map]. split; [|split].
  - constructor; [|exact He]. constructor; [apply legal_octet_string|reflexivity|exact Hl].
  - cbn [traces trace_of]. rewrite accepts_app. cbn [accepts forallb octet_filter]. rewrite Ha. reflexivity.
  - cbn [leaves_l leaves app]. rewrite Hlv. reflexivity.
Qed.

Theorem oss_of_accepted_cer fuel c s o c' s' : nf s -> octets_ok (rem s) = true -> cmd c = Cer ->
  take_constructed_cer fuel c s = (Ok (o, c'), s') ->
  exists x, os_octets o = Ok x /\ oss_has (oss_new o) x.
Proof.
  intros Hn Ho Hm H. destruct (constructed_cer_sound fuel c s o c' s' Hn Ho Hm H) as (segs & ds & -> & Hs & _ & Hrem).
  destruct (cer_segs_grammar segs ds Hs) as (He & Ha & Hlv).
  assert (Hod : octets_ok ds = true) by (rewrite Hrem in Ho; apply octets_ok_app_l in Ho; exact Ho).
  destruct (segments_are_leaves Cer _ ds He Ha Hod) as [_ Hoct]. rewrite Hlv in Hoct.
  exists (concat segs). split; [exact Hoct|apply oss_new_has, Hoct].
Qed.
Theorem oss_of_primitive b : oss_has (oss_new (OPrim b)) b.
Proof. apply oss_new_has. unfold os_octets, os_segments. destruct b; cbn [res_map concat]; rewrite ?app_nil_r; reflexivity. Qed.

(* reading the source to the end by requests of any sizes and full advances yields the string's octets:
   the observable consequence used by the correspondence stream *)
Fixpoint oss_drain (fuel : nat) (want : N) (st : oss) (acc : list N) : res (list N) :=
  match fuel with
  | O => NoFuel
  | S f =>
    match oss_request want st with
    | Ok (g, st1) =>
        if g =? 0 then Ok acc else
        match oss_advance g st1 with
        | Ok st2 => oss_drain f want st2 (acc ++ oss_slice st1)
        | CErr => CErr | SErr => SErr | Panic => Panic | NoFuel => NoFuel
        end
    | CErr => CErr | SErr => SErr | Panic => Panic | NoFuel => NoFuel
    end
  end.

Theorem oss_drain_spec fuel : forall want st data acc, 1 <= want -> oss_has st data -> (length data < fuel)%nat ->
  oss_drain fuel want st acc = Ok (acc ++ data).
Proof.
  induction fuel as [|f IH]; intros want st data acc Hwant Hhas Hf; [lia|].
  cbn [oss_drain].
  destruct (oss_request_contract want st data Hhas) as (g & st1 & Hr & Hhas1 & Hg & Hmin & Hle & (rest & Hd) & _).
  rewrite Hr. destruct (g =? 0) eqn:Eg.
  - assert (len data = 0) by lia. destruct data; [rewrite app_nil_r; reflexivity|rewrite len_cons in H; lia].
  - destruct (oss_advance_spec g st1 data Hhas1 ltac:(lia)) as (st2 & Ha & Hhas2 & _). rewrite Ha.
    rewrite (IH want st2 (skipN g data) (acc ++ oss_slice st1) Hwant Hhas2).
    + rewrite <- app_assoc. f_equal. rewrite Hd at 2. rewrite Hd, Hg. unfold skipN, len.
      rewrite Nnat.Nat2N.id, skipn_app, skipn_all, Nat.sub_diag. reflexivity.
    + unfold skipN. rewrite skipn_length. unfold len in *. lia.
Qed.

(* in the words of the property: read as a source, by requests of any size, the value yields its octets *)
Corollary oss_presents_octets o x want fuel : os_octets o = Ok x -> 1 <= want -> (length x < fuel)%nat ->
  oss_drain fuel want (oss_new o) [] = Ok x.
Proof. intros H Hw Hf. exact (oss_drain_spec fuel want (oss_new o) x [] Hw (oss_new_has o x H) Hf). Qed.

(* non-vacuity: the content 04 02 61 62 | 24 04 { 04 02 63 64 } read through requests of 3: the first
   request has to pull in two segments *)
Example oss_example :
  oss_drain 20 3 (oss_new (OCons [4; 2; 97; 98; 36; 4; 4; 2; 99; 100])) [] = Ok [97; 98; 99; 100] /\
  os_octets (OCons [4; 2; 97; 98; 36; 4; 4; 2; 99; 100]) = Ok [97; 98; 99; 100] /\
  res_map fst (oss_request 3 (oss_new (OCons [4; 2; 97; 98; 36; 4; 4; 2; 99; 100]))) = Ok 4.
Proof. vm_compute. repeat split; reflexivity. Qed.
