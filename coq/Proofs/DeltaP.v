(* Consumption bookkeeping: under a limit, the remaining limit and the
   remaining data shrink in lockstep, so `len (rem s) - limit` is invariant
   (Dl z). Consequences: a definite-length value whose closure ran to its end
   has consumed exactly its declared length, whatever the nesting; a value
   that declares more than the data holds can never be completed (deficit);
   capture never asks the enclosing source for more than its limit.
   Built on the Safe triples of TotalP.v (St b z = limit kind + lockstep). *)
From Coq Require Import Lia ZifyBool ZifyN.
Require Import BV.Model.Base BV.Model.SrcB BV.Model.Length BV.Model.Tag BV.Model.Content.
Require Import BV.Proofs.Bits BV.Proofs.SrcBP BV.Proofs.TagP BV.Proofs.ContentP BV.Proofs.WinP BV.Proofs.TotalP.
Arguments N.add : simpl never. Arguments N.sub : simpl never.
Arguments N.ltb : simpl never. Arguments N.leb : simpl never. Arguments N.eqb : simpl never.
Arguments N.min : simpl never.

(* the ghost value: the invariant difference, and a bound the limit never exceeds *)
Definition gh := (Z * N)%type.
Definition Dl (z : gh) (s : src) : Prop :=
  match lim s with
  | Some l => (Z.of_N (len (rem s)) - Z.of_N l = fst z)%Z /\ l <= snd z
  | None => True
  end.
Definition St (b : bool) (z : gh) (s : src) : Prop := L b s /\ Dl z s.

Lemma Safe_conj {A} P P' (m : M A) Q Q' :
  Safe P m Q -> Safe P' m Q' -> Safe (fun s => P s /\ P' s) m (fun a s => Q a s /\ Q' a s).
Proof.
  intros H H' s Hn [Hp Hp']. specialize (H s Hn Hp). specialize (H' s Hn Hp').
  destruct (m s) as [[a| | | |] s']; auto. destruct H, H'. auto.
Qed.

Lemma St_of {A} (m : M A) :
  (forall b, Safe (L b) m (fun _ => L b)) -> (forall z, Safe (Dl z) m (fun _ => Dl z)) ->
  forall b z, Safe (St b z) m (fun _ => St b z).
Proof. intros HL HD b z. apply Safe_conj; auto. Qed.

(* choose the ghost value from the state *)
Lemma Safe_any_delta {A} (P : src -> Prop) (m : M A) Q :
  (forall z, Safe (fun s => P s /\ Dl z s) m Q) -> Safe P m Q.
Proof.
  intros H s Hn Hp.
  destruct (lim s) as [l|] eqn:El.
  - apply (H ((Z.of_N (len (rem s)) - Z.of_N l)%Z, l) s Hn). split; [exact Hp|]. unfold Dl. rewrite El. cbn [fst snd]. lia.
  - apply (H (0%Z, 0) s Hn). split; [exact Hp|]. unfold Dl. rewrite El. exact I.
Qed.

Ltac nfs := match goal with H : nf ?s |- _ => destruct s as [d l f]; unfold nf in H; cbn in H; subst f end.

(* ---- leaves ---- *)
Lemma D_tick z : Safe (Dl z) tick (fun _ => Dl z).
Proof. intros s Hn Hp. nfs. cbn. split; [reflexivity|exact Hp]. Qed.

Lemma D_take_u8 z : Safe (Dl z) take_u8 (fun _ => Dl z).
Proof.
  intros s Hn Hp. nfs. unfold take_u8, bind, tick. cbn [flt rem lim].
  unfold Dl in *. cbn [lim rem] in *.
  destruct l as [[|p]|], d as [|x d]; cbn [lim_sub lim rem]; auto; (split; [reflexivity|]); auto.
  rewrite len_cons in Hp. cbn [lim rem]. lia.
Qed.
Lemma D_take_opt_u8 z : Safe (Dl z) take_opt_u8 (fun _ => Dl z).
Proof.
  intros s Hn Hp. nfs. unfold take_opt_u8, bind, tick. cbn [flt rem lim].
  unfold Dl in *. cbn [lim rem] in *.
  destruct l as [[|p]|], d as [|x d]; cbn [lim_sub lim rem]; auto; (split; [reflexivity|]); auto.
  rewrite len_cons in Hp. cbn [lim rem]. lia.
Qed.

Lemma D_need_advance z n : Safe (Dl z) (need n ;;; advance n) (fun _ => Dl z).
Proof.
  intros s Hn Hp. nfs. unfold need, bind, tick, advance, avail. cbn [flt rem lim].
  unfold Dl in *. cbn [lim rem] in *.
  destruct l as [x|].
  - destruct (N.min x (len d) <? n) eqn:E; [exact I|]. cbv beta iota. cbn [rem lim flt].
    replace (len d <? n) with false by lia. replace (x <? n) with false by lia.
    cbv beta iota. split; [reflexivity|]. cbn [lim rem]. rewrite len_skipN. lia.
  - destruct (len d <? n) eqn:E; [exact I|]. cbv beta iota. cbn [rem lim flt]. rewrite E.
    cbv beta iota. split; [reflexivity|exact I].
Qed.

Lemma D_src_exhausted z : Safe (Dl z) src_exhausted (fun _ => Dl z).
Proof.
  intros s Hn Hp. nfs. unfold src_exhausted, bind, tick. cbn [flt rem lim].
  destruct l as [[|p]|]; cbn; auto; [split; [reflexivity|exact Hp]|].
  destruct d; cbn; auto. split; [reflexivity|exact Hp].
Qed.
(* under a limit, passing the end check means the limit is used up *)
Lemma St_src_exhausted z : Safe (St true z) src_exhausted (fun _ s => St true z s /\ lim s = Some 0).
Proof.
  intros s Hn [Hl Hp]. nfs. unfold src_exhausted. cbn [lim]. unfold L, lk in Hl. cbn [lim] in Hl.
  destruct l as [[|p]|]; [|exact I|discriminate]. split; [reflexivity|]. split; [|reflexivity].
  split; [reflexivity|exact Hp].
Qed.

Lemma St_take_all z : Safe (St true z) take_all_lim (fun _ => St true z).
Proof.
  intros s Hn [Hl Hp]. nfs. unfold L, lk in Hl. cbn [lim] in Hl. destruct l as [x|]; [|discriminate].
  unfold take_all_lim. cbn [lim]. unfold need, bind, tick, advance, avail, get, ret. cbn [flt rem lim].
  unfold Dl in Hp. cbn [lim rem] in Hp.
  destruct (N.min x (len d) <? x) eqn:E; [exact I|]. cbv beta iota. cbn [rem lim flt].
  replace (len d <? x) with false by lia. replace (x <? x) with false by lia. cbv beta iota.
  split; [reflexivity|]. split; [reflexivity|]. unfold Dl. cbn [lim rem]. rewrite len_skipN. lia.
Qed.
Lemma St_skip_all z : Safe (St true z) skip_all_lim (fun _ => St true z).
Proof.
  intros s Hn [Hl Hp]. nfs. unfold L, lk in Hl. cbn [lim] in Hl. destruct l as [x|]; [|discriminate].
  unfold skip_all_lim. cbn [lim]. unfold need, bind, tick, advance, avail. cbn [flt rem lim].
  unfold Dl in Hp. cbn [lim rem] in Hp.
  destruct (N.min x (len d) <? x) eqn:E; [exact I|]. cbv beta iota. cbn [rem lim flt].
  replace (len d <? x) with false by lia. replace (x <? x) with false by lia. cbv beta iota.
  split; [reflexivity|]. split; [reflexivity|]. unfold Dl. cbn [lim rem]. rewrite len_skipN. lia.
Qed.

Ltac d_auto z :=
  repeat first
    [ apply Safe_cerr
    | apply Safe_ret; intros; assumption
    | apply Safe_if
    | eapply Safe_bind; [apply (D_take_u8 z)|intros ?]
    | eapply Safe_bind; [apply (D_take_opt_u8 z)|intros ?]
    | eapply Safe_bind; [apply (D_tick z)|intros ?] ].

Lemma D_length z m : Safe (Dl z) (length_take_from m) (fun _ => Dl z).
Proof. unfold length_take_from. d_auto z. Qed.
Lemma D_tag_opt z : Safe (Dl z) tag_take_opt_from (fun _ => Dl z).
Proof. unfold tag_take_opt_from. eapply Safe_bind; [apply (D_take_opt_u8 z)|]. intros [x|]; d_auto z. Qed.
Lemma D_tag z : Safe (Dl z) tag_take_from (fun _ => Dl z).
Proof. unfold tag_take_from. eapply Safe_bind; [apply (D_tag_opt z)|]. intros [x|]; d_auto z. Qed.

Lemma D_tag_if z e : Safe (Dl z) (tag_take_from_if e) (fun _ => Dl z).
Proof.
  intros s Hn Hp. rewrite (tag_take_from_if_peek_gen e s Hn).
  destruct (peek_tag (visible s)) as [[[[t c] k]|]|] eqn:P; [|exact I|auto].
  destruct (tag_eqb t e); [|auto]. split; [reflexivity|].
  destruct (peek_tag_len _ t c k P) as (_ & Hle & _).
  pose proof (visible_len s) as [V1 V2].
  unfold Dl in *. cbn [lim rem]. destruct (lim s) as [x|]; cbn [lim_sub lim_ge] in *; [|exact I].
  rewrite len_skipN. lia.
Qed.

Lemma D_cons_exhausted z c : Safe (Dl z) (cons_exhausted c) (fun _ => Dl z).
Proof.
  unfold cons_exhausted. destruct (cst c); try (apply Safe_ret; auto); [apply D_src_exhausted|].
  eapply Safe_bind; [apply (D_tag z)|]. intros [t k].
  apply Safe_if; [apply Safe_cerr|]. eapply Safe_bind; [apply (D_length z)|]. intro l.
  apply Safe_if; [apply Safe_ret; auto|apply Safe_cerr].
Qed.

(* St versions *)
Definition St_tick := St_of tick Safe_tick D_tick.
Definition St_take_u8 := St_of take_u8 Safe_take_u8 D_take_u8.
Definition St_take_opt_u8 := St_of take_opt_u8 Safe_take_opt_u8 D_take_opt_u8.
Definition St_need_advance n := St_of (need n ;;; advance n) (fun b => Safe_need_advance b n) (fun z => D_need_advance z n).
Definition St_length m := St_of (length_take_from m) (fun b => Safe_length b m) (fun z => D_length z m).
Definition St_tag := St_of tag_take_from Safe_tag D_tag.
Definition St_tag_opt := St_of tag_take_opt_from Safe_tag_opt D_tag_opt.
Definition St_tag_if e := St_of (tag_take_from_if e) (fun b => Safe_tag_if b e) (fun z => D_tag_if z e).
Definition St_cons_exhausted c := St_of (cons_exhausted c) (fun b => Safe_cons_exhausted b c) (fun z => D_cons_exhausted z c).

(* ---- process_next_value keeps the lockstep ---- *)
Definition kp (c c' : cons) : Prop := cst c = Definite <-> cst c' = Definite.
Definition kp_ct (ct ct' : content) : Prop :=
  match ct, ct' with
  | CPrim _, CPrim _ => True
  | CCons c, CCons c' => kp c c'
  | _, _ => False
  end.
Lemma kp_refl c : kp c c. Proof. unfold kp. tauto. Qed.

(* well-behaved closures: no panic, invariant kept, lockstep kept, and the
   content handed back is of the kind that was handed in (bcder's API gives a
   closure no way to turn a definite-length content into anything else) *)
Definition SafeOp2 {T} (op : tag -> content -> M (T * content)) : Prop :=
  forall t ct b z, Safe (fun s => inv_ct ct s /\ St b z s) (op t ct)
                        (fun rc s => inv_ct (snd rc) s /\ St b z s /\ kp_ct ct (snd rc)).

Lemma St_is_exhausted c b z : Safe (fun s => inv c s /\ St b z s) (is_exhausted c) (fun _ => St b z).
Proof.
  intros s Hn [Hi Hs]. pose proof (Safe_is_exhausted c s Hn Hi) as H.
  assert (Hst : forall r s0, is_exhausted c s = (r, s0) -> s0 = s) by (intros; eapply is_exhausted_state; eauto).
  destruct (is_exhausted c s) as [[a| | | |] s0] eqn:E; auto.
  rewrite (Hst _ _ eq_refl). split; [exact Hn|exact Hs].
Qed.

Lemma St_set_limit_some b z li n : n <= li ->
  Safe (fun s => St b z s /\ lim s = Some li) (set_limit (Some n))
       (fun _ s => li <= snd z /\ St true ((fst z + Z.of_N li - Z.of_N n)%Z, n) s).
Proof.
  intros Hle s Hn [[Hl Hd] El]. nfs. cbn [lim] in El. subst l. cbn. split; [reflexivity|].
  unfold Dl in *. cbn [lim rem fst snd] in *. split; [lia|]. split; [reflexivity|]. unfold Dl. cbn [lim rem fst snd]. lia.
Qed.

Theorem St_process_next_value {T} c exp (op : tag -> content -> M (T * content)) b z :
  SafeOp2 op ->
  Safe (fun s => inv c s /\ St b z s) (process_next_value c exp op)
       (fun rc s => inv (snd rc) s /\ St b z s /\ kp c (snd rc)).
Proof.
  intros Hop. unfold process_next_value.
  apply Safe_conseq with (P := fun s => (cst c = Definite -> b = true) /\ (inv c s /\ St b z s))
                         (Q := fun rc s => inv (snd rc) s /\ St b z s /\ kp c (snd rc)); [| |auto].
  2:{ intros s [Hi Hs]. split; [|auto]. intro E. destruct Hs as [Hl _]. rewrite <- Hl. apply (Hi E). }
  apply Safe_pure. intro Hcb.
  assert (Hinv : forall s', St b z s' -> inv c s' /\ St b z s' /\ kp c c).
  { intros s' Hs. split; [|split; [exact Hs|apply kp_refl]]. intro E. destruct Hs as [Hl _]. rewrite Hl. auto. }
  eapply Safe_bind; [apply St_is_exhausted|]. intro ex.
  apply Safe_if; [apply Safe_ret; intros s Hs; apply Hinv, Hs|].
  eapply Safe_bind with (Q := fun _ => St b z).
  { destruct exp as [e|].
    - eapply Safe_bind; [apply St_tag_if|]. intro o. apply Safe_ret; auto.
    - apply Safe_if; [apply St_tag_opt|].
      eapply Safe_bind; [apply St_tag|]. intro r. apply Safe_ret; auto. }
  intros [[t k]|]; [|apply Safe_ret; intros s Hs; apply Hinv, Hs].
  eapply Safe_bind; [apply St_length|]. intro l.
  apply Safe_if.
  { destruct (cst c) eqn:E; try apply Safe_cerr.
    apply Safe_if; [apply Safe_cerr|]. apply Safe_if; [apply Safe_cerr|].
    apply Safe_ret. intros s Hs. split; [unfold inv, with_state; cbn; discriminate|].
    split; [exact Hs|]. unfold kp, with_state. cbn. rewrite E. split; discriminate. }
  destruct l as [n|].
  - (* definite length *)
    eapply Safe_bind with (Q := fun old s => St b z s /\ lim s = old).
    { intros s Hn Hs. cbn. auto. }
    intro old.
    apply Safe_conseq with (P := fun s => (b = true <-> old <> None) /\ (St b z s /\ lim s = old))
                           (Q := fun rc s => inv (snd rc) s /\ St b z s /\ kp c (snd rc)); [| |auto].
    2:{ intros s [Hs Ho]. split; [|auto]. destruct Hs as [Hl _]. unfold L, lk in Hl. rewrite Ho in Hl.
        destruct old; split; intro; try discriminate; try congruence. }
    apply Safe_pure. intro Hold.
    assert (Hclose : forall z' (ct' : content),
              kp_ct (if k then CCons {| cst := Definite; cmd := cmd c |} else CPrim (cmd c)) ct' ->
              Safe (fun s => inv_ct ct' s /\ St true z' s) (content_exhausted ct')
                   (fun _ s => St true z' s /\ lim s = Some 0)).
    { intros z' ct' Hk. eapply Safe_conseq; [| |intros a s H; exact H].
      - destruct ct' as [md|c']; cbn [content_exhausted].
        + apply St_src_exhausted.
        + destruct k; cbn in Hk; [|contradiction]. unfold cons_exhausted.
          replace (cst c') with Definite by (symmetry; apply Hk; reflexivity). apply St_src_exhausted.
      - intros s [_ Hs]. exact Hs. }
    destruct old as [li|].
    + (* an enclosing limit: checked before narrowing, restored afterwards *)
      destruct (li <? n) eqn:Eli.
      { eapply Safe_bind with (Q := fun _ _ => False); [apply Safe_cerr|]. intros u s _ []. }
      eapply Safe_bind with (Q := fun _ s => St b z s /\ lim s = Some li); [apply Safe_ret; auto|]. intro u0.
      eapply Safe_bind; [apply (St_set_limit_some b z li n); lia|]. intro u1.
      set (z' := ((fst z + Z.of_N li - Z.of_N n)%Z, n)).
      apply Safe_pure. intro Hli0.
      eapply Safe_bind with (Q := fun _ s => St true z' s).
      { apply Safe_if; [apply Safe_cerr|apply Safe_ret; auto]. }
      intro u2. cbv zeta.
      eapply Safe_bind.
      { eapply Safe_conseq; [apply (Hop t _ true z')| |intros a s H; exact H].
        intros s Hs. split; [|exact Hs]. destruct Hs as [Hl _]. destruct k; cbn; [intros _; exact Hl|exact Hl]. }
      intros [r ct'].
      apply Safe_conseq with (P := fun s => kp_ct (if k then CCons {| cst := Definite; cmd := cmd c |} else CPrim (cmd c)) ct'
                                   /\ (inv_ct ct' s /\ St true z' s))
                             (Q := fun rc s => inv (snd rc) s /\ St b z s /\ kp c (snd rc)); [| |auto].
      2:{ intros s (Hi & Hs & Hk). cbn [snd] in *. auto. }
      apply Safe_pure. intro Hk.
      eapply Safe_bind; [apply (Hclose z' ct' Hk)|]. intro u3.
      eapply Safe_bind with (Q := fun _ s => St b z s).
      { intros s Hn [[Hl Hd] E0]. nfs. cbn [lim] in E0. subst l. cbn. split; [reflexivity|].
        assert (Hb : b = true) by (apply Hold; discriminate). subst b.
        split; [reflexivity|]. unfold Dl in *. cbn [lim rem lim_sub] in *. unfold z' in Hd. cbn [fst snd] in Hd.
        assert (Hli : li <= snd z) by exact Hli0. lia. }
      intro u4. apply Safe_ret. intros s Hs. cbn [snd]. apply Hinv, Hs.
    + (* no enclosing limit (top level or inside indefinite values only) *)
      assert (Hb : b = false) by (destruct b; [exfalso; apply (proj1 Hold eq_refl); reflexivity|reflexivity]).
      subst b.
      eapply Safe_bind with (Q := fun _ _ => True); [apply Safe_ret; auto|]. intro u0.
      eapply Safe_bind with (Q := fun _ s => lim s = Some n); [apply Safe_set_limit|]. intro u1.
      apply Safe_any_delta. intro z'.
      eapply Safe_bind with (Q := fun _ s => St true z' s).
      { apply Safe_if; [apply Safe_cerr|apply Safe_ret].
        intros s [El Hd]. split; [unfold L, lk; rewrite El; reflexivity|exact Hd]. }
      intro u2. cbv zeta.
      eapply Safe_bind.
      { eapply Safe_conseq; [apply (Hop t _ true z')| |intros a s H; exact H].
        intros s Hs. split; [|exact Hs]. destruct Hs as [Hl _]. destruct k; cbn; [intros _; exact Hl|exact Hl]. }
      intros [r ct'].
      apply Safe_conseq with (P := fun s => kp_ct (if k then CCons {| cst := Definite; cmd := cmd c |} else CPrim (cmd c)) ct'
                                   /\ (inv_ct ct' s /\ St true z' s))
                             (Q := fun rc s => inv (snd rc) s /\ St false z s /\ kp c (snd rc)); [| |auto].
      2:{ intros s (Hi & Hs & Hk). cbn [snd] in *. auto. }
      apply Safe_pure. intro Hk.
      eapply Safe_bind; [apply (Hclose z' ct' Hk)|]. intro u3.
      eapply Safe_bind with (Q := fun _ s => St false z s).
      { intros s Hn _. nfs. cbn. split; [reflexivity|]. split; [reflexivity|exact I]. }
      intro u4. apply Safe_ret. intros s Hs. cbn [snd]. apply Hinv, Hs.
  - (* indefinite length *)
    apply Safe_if; [apply Safe_cerr|].
    eapply Safe_bind.
    { eapply Safe_conseq; [apply (Hop t _ b z)| |intros a s H; exact H].
      intros s Hs. split; [|exact Hs]. cbn. unfold inv. cbn. discriminate. }
    intros [r ct'].
    apply Safe_conseq with (P := fun s => kp_ct (CCons {| cst := Indefinite; cmd := cmd c |}) ct' /\ St b z s)
                           (Q := fun rc s => inv (snd rc) s /\ St b z s /\ kp c (snd rc)); [| |auto].
    2:{ intros s (Hi & Hs & Hk). cbn [snd] in *. auto. }
    apply Safe_pure. intro Hk. destruct ct' as [md|c']; [contradiction|].
    eapply Safe_bind; [apply St_cons_exhausted|]. intro u.
    apply Safe_ret. intros s Hs. cbn [snd]. apply Hinv, Hs.
Qed.

Lemma kp_trans a b c : kp a b -> kp b c -> kp a c.
Proof. unfold kp. tauto. Qed.

(* ---- the generic reader ---- *)
Theorem St_read_all fuel : forall c b z,
  Safe (fun s => inv c s /\ St b z s) (read_all fuel c)
       (fun rc s => inv (snd rc) s /\ St b z s /\ kp c (snd rc)).
Proof.
  induction fuel as [|fu IH]; intros c b z; cbn [read_all]; [apply Safe_nofuel|].
  eapply Safe_bind.
  - apply St_process_next_value. intros t [m|c'] b' z'; cbn [inv_ct].
    + eapply Safe_bind with (Q := fun _ s => St true z' s /\ b' = true).
      { intros s Hn [Hk [Hl Hd]]. pose proof (St_take_all z' s Hn (conj Hk Hd)) as H.
        destruct (take_all_lim s) as [[a| | | |] s']; auto. destruct H as [H1 H2]. split; [exact H1|].
        split; [exact H2|]. unfold L in *. congruence. }
      intro bs. apply Safe_ret. intros s [Hs Hb]. cbn [snd inv_ct kp_ct]. subst b'.
      split; [exact (proj1 Hs)|]. split; [exact Hs|exact I].
    + eapply Safe_bind; [apply (IH c' b' z')|]. intros [kids c'']. apply Safe_ret.
      intros s (Hi & Hs & Hk). cbn [snd inv_ct kp_ct]. auto.
  - intros [[v|] c']; [|apply Safe_ret; auto].
    apply Safe_conseq with (P := fun s => kp c c' /\ (inv c' s /\ St b z s))
                           (Q := fun rc s => inv (snd rc) s /\ St b z s /\ kp c (snd rc)); [| |auto].
    2:{ intros s (Hi & Hs & Hk). cbn [snd] in *. auto. }
    apply Safe_pure. intro Hk.
    eapply Safe_bind; [apply (IH c' b z)|]. intros [vs c'']. apply Safe_ret.
    intros s (Hi & Hs & Hk'). cbn [snd] in *. split; [exact Hi|]. split; [exact Hs|].
    eapply kp_trans; eauto.
Qed.

(* ---- skipping: what the stack of enclosing limits will restore ---- *)
Fixpoint finrel (st : stack) (b : bool) (z : gh) (b0 : bool) (z0 : gh) : Prop :=
  match st with
  | [] => b = b0 /\ (b0 = true -> fst z = fst z0 /\ snd z <= snd z0)
  | None :: st' => finrel st' b z b0 z0
  | Some l :: st' =>
      b = true /\ match l with
                  | Some x => finrel st' true ((fst z - Z.of_N x)%Z, x) b0 z0
                  | None => finrel st' false (0%Z, 0) b0 z0
                  end
  end.
Lemma finrel_mono st b z z' b0 z0 : fst z' = fst z -> snd z' <= snd z ->
  finrel st b z b0 z0 -> finrel st b z' b0 z0.
Proof.
  revert b z z'. induction st as [|[l|] st' IH]; intros b z z' Hf Hs; cbn [finrel].
  - intros [Hb Hz]. split; [exact Hb|]. intro E. specialize (Hz E). lia.
  - intros [Hb H]. split; [exact Hb|]. destruct l; [rewrite Hf; exact H|exact H].
  - apply IH; assumption.
Qed.
Lemma finrel_false st z z' b0 z0 : finrel st false z b0 z0 -> finrel st false z' b0 z0.
Proof.
  induction st as [|[l|] st' IH]; cbn [finrel].
  - intros [Hb Hz]. split; [exact Hb|]. intro E. subst b0. discriminate.
  - intros [H _]. discriminate.
  - exact IH.
Qed.
Definition FS (st : stack) (b0 : bool) (z0 : gh) (s : src) : Prop :=
  exists b z, St b z s /\ finrel st b z b0 z0.

Lemma Safe_ex {A X} (P : X -> src -> Prop) (m : M A) Q :
  (forall x, Safe (P x) m Q) -> Safe (fun s => exists x, P x s) m Q.
Proof. intros H s Hn [x Hp]. apply (H x s Hn Hp). Qed.

Lemma FS_keep {A} (m : M A) st b0 z0 :
  (forall b z, Safe (St b z) m (fun _ => St b z)) -> Safe (FS st b0 z0) m (fun _ => FS st b0 z0).
Proof.
  intros Hm. unfold FS. apply Safe_ex. intro b. apply Safe_ex. intro z.
  intros s Hn [Hs Hf]. specialize (Hm b z s Hn Hs).
  destruct (m s) as [[a| | | |] s']; auto. destruct Hm as [Hn' Hs']. split; [exact Hn'|]. exists b, z. auto.
Qed.

Lemma FS_skip_unwind fuel : forall st b0 z0,
  Safe (FS st b0 z0) (skip_unwind fuel st)
       (fun o s => match o with None => St b0 z0 s | Some st' => FS st' b0 z0 s end).
Proof.
  induction fuel as [|fu IH]; intros st b0 z0; cbn [skip_unwind]; [apply Safe_nofuel|].
  destruct st as [|top st'].
  { apply Safe_ret. intros s (b & z & [Hl Hd] & Hb & Hz). subst b. split; [exact Hl|].
    unfold Dl in *. unfold L, lk in Hl. destruct (lim s); [|exact I]. destruct b0; [|discriminate].
    specialize (Hz eq_refl). lia. }
  eapply Safe_bind with (Q := fun li s => FS (top :: st') b0 z0 s /\ lim s = li).
  { intros s Hn Hp. cbn. auto. }
  intros [[|p]|]; try (apply Safe_ret; intros s [H _]; exact H).
  destruct top as [lo|]; [|apply Safe_cerr].
  eapply Safe_bind with (Q := fun _ s => FS st' b0 z0 s); [|intro u; apply IH].
  intros s Hn [(b & z & [Hl Hd] & Hf) El]. nfs. cbn [lim] in El. subst l. cbn. split; [reflexivity|].
  cbn [finrel] in Hf. destruct Hf as [Hb Hf]. subst b.
  unfold Dl in Hd. cbn [lim rem] in Hd.
  destruct lo as [x|].
  - exists true, ((fst z - Z.of_N x)%Z, x). split; [|exact Hf]. split; [reflexivity|]. unfold Dl. cbn [lim rem fst snd]. lia.
  - exists false, (0%Z, 0). split; [|exact Hf]. split; [reflexivity|exact I].
Qed.

Theorem FS_skip_loop fuel : forall c flt_ st tr b0 z0,
  Safe (FS st b0 z0) (skip_loop fuel c flt_ st tr) (fun r s => St b0 z0 s /\ kp c (snd (fst r))) /\
  Safe (FS st b0 z0) (skip_after fuel c flt_ st tr) (fun r s => St b0 z0 s /\ kp c (snd (fst r))).
Proof.
  induction fuel as [|fu IH]; intros c flt_ st tr b0 z0; cbn [skip_loop skip_after];
    [split; apply Safe_nofuel|].
  assert (Hfin : forall s, FS [] b0 z0 s -> St b0 z0 s).
  { intros s (b & z & [Hl Hd] & Hb & Hz). subst b. split; [exact Hl|].
    unfold Dl in *. unfold L, lk in Hl. destruct (lim s); [|exact I]. destruct b0; [|discriminate].
    specialize (Hz eq_refl). lia. }
  split.
  - eapply Safe_bind with (Q := fun hdr s => FS st b0 z0 s /\ (hdr = None -> st = [])).
    { destruct st as [|x st']; [destruct (cstate_eqb (cst c) Unbounded)|].
      - eapply Safe_conseq with (P := FS [] b0 z0) (Q := fun _ => FS [] b0 z0); [apply FS_keep, St_tag_opt|auto|auto].
      - eapply Safe_bind; [apply FS_keep, St_tag|]. intro. apply Safe_ret; auto.
      - eapply Safe_bind; [apply FS_keep, St_tag|]. intro. apply Safe_ret.
        intros s Hp. split; [exact Hp|discriminate]. }
    intros [[t k]|].
    2:{ apply Safe_ret. intros s [Hp He]. rewrite (He eq_refl) in Hp. split; [apply Hfin, Hp|apply kp_refl]. }
    apply Safe_conseq with (P := FS st b0 z0) (Q := fun r s => St b0 z0 s /\ kp c (snd (fst r)));
      [|intros s [H _]; exact H|auto].
    eapply Safe_bind; [apply FS_keep; intros; apply St_length|]. intro l.
    apply Safe_if.
    + apply Safe_if.
      * apply Safe_if; [apply Safe_cerr|].
        destruct st as [|[x|] st'].
        -- destruct (cst c) eqn:E; try apply Safe_cerr. apply Safe_ret.
           intros s Hp. split; [apply Hfin, Hp|]. unfold kp, with_state. cbn. rewrite E. split; discriminate.
        -- apply Safe_cerr.
        -- eapply Safe_conseq; [apply (proj2 (IH c flt_ st' tr b0 z0))| |auto].
           intros s (b & z & Hs & Hf). exists b, z. auto.
      * destruct l as [n|]; [|apply Safe_cerr].
        apply Safe_if; [apply Safe_cerr|].
        eapply Safe_ext; [intro s; apply bind_assoc|].
        eapply Safe_bind; [apply FS_keep; intros; apply St_need_advance|]. intro u. apply IH.
    + apply Safe_if; [apply Safe_cerr|].
      destruct l as [n|].
      * apply Safe_if; [apply Safe_cerr|]. apply Safe_if; [apply Safe_cerr|].
        eapply Safe_bind with (Q := fun ol s => FS st b0 z0 s /\ lim s = ol).
        { intros s Hn Hp. cbn. auto. }
        intros [li|].
        -- destruct (li <? n) eqn:Eli; [apply Safe_cerr|].
           eapply Safe_bind with (Q := fun _ s => FS (Some (Some (li - n)) :: st) b0 z0 s); [|intro u; apply IH].
           intros s Hn [(b & z & [Hl Hd] & Hf) El]. nfs. cbn [lim] in El. subst l. cbn. split; [reflexivity|].
           unfold L, lk in Hl. cbn [lim] in Hl. subst b.
           unfold Dl in Hd. cbn [lim rem] in Hd.
           exists true, ((fst z + Z.of_N li - Z.of_N n)%Z, n). split.
           ++ split; [reflexivity|]. unfold Dl. cbn [lim rem fst snd]. lia.
           ++ cbn [finrel fst snd]. split; [reflexivity|].
              eapply finrel_mono; [| |exact Hf]; cbn [fst snd]; lia.
        -- eapply Safe_bind with (Q := fun _ s => FS (Some None :: st) b0 z0 s); [|intro u; apply IH].
           intros s Hn [(b & z & [Hl Hd] & Hf) El]. nfs. cbn [lim] in El. subst l. cbn. split; [reflexivity|].
           unfold L, lk in Hl. cbn [lim] in Hl. subst b.
           exists true, ((Z.of_N (len d) - Z.of_N n)%Z, n). split.
           ++ split; [reflexivity|]. unfold Dl. cbn [lim rem fst snd]. lia.
           ++ cbn [finrel]. split; [reflexivity|]. eapply finrel_false; eauto.
      * apply Safe_if; [apply Safe_cerr|]. apply Safe_if; [apply Safe_cerr|].
        eapply Safe_conseq; [apply (proj1 (IH c flt_ (None :: st) (tr ++ [(t, k, len st)]) b0 z0))| |auto].
        intros s (b & z & Hs & Hf). exists b, z. auto.
  - eapply Safe_bind; [apply FS_skip_unwind|].
    intros [st'|]; [apply IH|apply Safe_ret; intros s Hs; split; [exact Hs|apply kp_refl]].
Qed.

Theorem St_skip_opt fuel c flt_ b z :
  Safe (fun s => inv c s /\ St b z s) (skip_opt fuel c flt_)
       (fun r s => inv (snd (fst r)) s /\ St b z s /\ kp c (snd (fst r))).
Proof.
  unfold skip_opt.
  apply Safe_conseq with (P := fun s => (cst c = Definite -> b = true) /\ (inv c s /\ St b z s))
                         (Q := fun r s => inv (snd (fst r)) s /\ St b z s /\ kp c (snd (fst r))); [| |auto].
  2:{ intros s [Hi Hs]. split; [|auto]. intro E. destruct Hs as [Hl _]. rewrite <- Hl. apply (Hi E). }
  apply Safe_pure. intro Hcb.
  eapply Safe_bind; [apply St_is_exhausted|]. intro ex. apply Safe_if.
  - apply Safe_ret. intros s Hs. cbn [fst snd]. split; [|split; [exact Hs|apply kp_refl]].
    intro E. destruct Hs as [Hl _]. rewrite Hl. auto.
  - eapply Safe_conseq; [apply (proj1 (FS_skip_loop fuel c flt_ [] [] b z))| |].
    + intros s Hs. exists b, z. split; [exact Hs|]. cbn. split; [reflexivity|]. intros _. split; [reflexivity|lia].
    + intros [[o c'] tr] s [Hs Hk]. cbn [fst snd] in *. split; [|auto].
      intro E. destruct Hs as [Hl _]. rewrite Hl. apply Hcb, Hk, E.
Qed.

(* ---- typed leaves keep the lockstep ---- *)
Require Import BV.Model.Twos BV.Model.Int BV.Model.BitStr BV.Model.Oid BV.Model.Prog.

Lemma St_remaining z : Safe (St true z) remaining (fun _ => St true z).
Proof.
  intros s Hn [Hl Hd]. unfold remaining. unfold L, lk in Hl. destruct (lim s) eqn:E; [|discriminate].
  split; [exact Hn|]. split; [unfold L, lk; rewrite E; reflexivity|exact Hd].
Qed.

Definition VZ (z : gh) (s : src) : Prop := St true z s /\ visible s <> [].

Lemma St_int_check_head z : Safe (St true z) int_check_head (fun _ => VZ z).
Proof.
  intros s Hn Hp. unfold int_check_head, bind. rewrite (tick_nf s Hn).
  destruct (visible s) as [|b0 [|b1 v]] eqn:E; [exact I| |].
  - split; [exact Hn|]. split; [exact Hp|]. rewrite E. discriminate.
  - destruct (((b0 =? 0) && negb (bit8 b1)) || ((b0 =? 255) && bit8 b1)); [exact I|].
    split; [exact Hn|]. split; [exact Hp|]. rewrite E. discriminate.
Qed.
Lemma St_uns_check_head z : Safe (St true z) uns_check_head (fun _ => VZ z).
Proof.
  unfold uns_check_head. eapply Safe_bind; [apply St_int_check_head|]. intro u.
  intros s Hn [Hl Hv]. destruct (visible s) as [|b0 v] eqn:E; [congruence|].
  destruct (bit8 b0); [exact I|]. split; [exact Hn|]. split; [exact Hl|]. rewrite E. discriminate.
Qed.

Lemma St_with_slice_all_gen {T} z (P : list N -> Prop) (op : list N -> res T) :
  (forall c, P c -> op c <> Panic) ->
  Safe (fun s => St true z s /\ P (visible s)) (with_slice_all op) (fun _ => St true z).
Proof.
  intros Hop s Hn [[Hl Hd] Hv]. nfs. unfold L, lk in Hl. cbn [lim] in Hl. destruct l as [x|]; [|discriminate].
  rewrite visible_eq in Hv. cbn [lim rem] in Hv. unfold Dl in Hd. cbn [lim rem] in Hd.
  unfold with_slice_all, slice_all_lim. cbn [lim]. unfold bind at 1. unfold bind at 1.
  unfold need, bind, tick, avail, get, ret. cbn [flt rem lim].
  destruct (N.min x (len d) <? x) eqn:E; [exact I|]. cbv beta iota. cbn [rem].
  specialize (Hop (firstN x d) Hv).
  assert (Hlen : len (firstN x d) = x) by (unfold len, firstN in *; rewrite firstn_length; lia).
  destruct (op (firstN x d)) as [v| | | |]; try exact I; [|congruence].
  unfold advance. cbn [rem lim flt]. rewrite Hlen.
  replace (len d <? x) with false by lia. replace (x <? x) with false by lia.
  cbv beta iota. split; [reflexivity|]. split; [reflexivity|]. unfold Dl. cbn [lim rem]. rewrite len_skipN. lia.
Qed.

Lemma VZ_St z s : VZ z s -> St true z s. Proof. intros [H _]. exact H. Qed.

Ltac st_auto z :=
  repeat first
    [ apply Safe_cerr
    | apply Safe_ret; intros; assumption
    | apply Safe_if
    | eapply Safe_bind; [apply (St_take_u8 true z)|intros ?]
    | eapply Safe_bind; [apply (St_take_opt_u8 true z)|intros ?]
    | eapply Safe_bind; [apply (St_tick true z)|intros ?] ].

Theorem St_int_accessor ty z : Safe (St true z) (int_accessor ty) (fun _ => St true z).
Proof.
  assert (Hs : forall w, Safe (St true z) (signed_from_primitive w) (fun _ => St true z)).
  { intro w. unfold signed_from_primitive. eapply Safe_bind; [apply St_int_check_head|]. intro.
    apply (St_with_slice_all_gen z (fun c => c <> [])), slice_signed_np. }
  assert (Hu : forall w, Safe (St true z) (unsigned_from_primitive w) (fun _ => St true z)).
  { intro w. unfold unsigned_from_primitive. eapply Safe_bind; [apply St_uns_check_head|]. intro.
    apply (St_with_slice_all_gen z (fun c => c <> [])), slice_unsigned_np. }
  assert (Hrem : forall A (k : N -> M A), (forall r, Safe (St true z) (k r) (fun _ => St true z)) ->
                 Safe (VZ z) (r <- remaining ;; k r) (fun _ => St true z)).
  { intros A k Hk. eapply Safe_bind with (Q := fun _ => St true z).
    - eapply Safe_conseq; [apply St_remaining|apply VZ_St|auto].
    - intro r. apply Hk. }
  unfold int_accessor.
  destruct ty as [|p]; [|destruct p as [p|p|]; [destruct p as [p|p|]; [destruct p as [p|p|]| destruct p as [p|p|]|]
                                              |destruct p as [p|p|]; [destruct p as [p|p|]| destruct p as [p|p|]|]|]];
    try apply Hs; try apply Hu.
  all: try (unfold u8_from_primitive, u16_from_primitive, i8_from_primitive).
  all: try (eapply Safe_bind; [apply St_uns_check_head|]; intro; apply Hrem; intro r; st_auto z).
  all: try (destruct p; apply Hu).
  eapply Safe_bind; [apply St_int_check_head|]. intro.
  eapply Safe_bind with (Q := fun _ => St true z).
  - eapply Safe_conseq; [apply (St_take_u8 true z)|apply VZ_St|auto].
  - intro. apply Safe_ret. auto.
Qed.

Lemma St_integer_from_primitive z : Safe (St true z) integer_from_primitive (fun _ => St true z).
Proof.
  unfold integer_from_primitive. eapply Safe_bind; [apply St_take_all|]. intros [|b0 [|b1 r]];
    [apply Safe_cerr|apply Safe_ret; auto|].
  apply Safe_if; [apply Safe_cerr|]. apply Safe_if; [apply Safe_cerr|apply Safe_ret; auto].
Qed.

Theorem St_typed_prim ty m z : Safe (St true z) (typed_prim ty m) (fun _ => St true z).
Proof.
  assert (Hdef : Safe (St true z) (v <- int_accessor ty;; ret [v]) (fun _ => St true z)).
  { eapply Safe_bind; [apply St_int_accessor|]. intro. apply Safe_ret. auto. }
  assert (Hbit : forall A (k : N -> M A), (forall u, Safe (St true z) (k u) (fun _ => St true z)) ->
            Safe (St true z) (r <- remaining;; if mode_eqb m Cer && (1000 <? r) then cerr else
                           unused <- take_u8;; if 7 <? unused then cerr else
                           r2 <- remaining;; if (r2 =? 0) && (0 <? unused) then cerr else k unused) (fun _ => St true z)).
  { intros A k Hk. eapply Safe_bind; [apply St_remaining|]. intro r. apply Safe_if; [apply Safe_cerr|].
    eapply Safe_bind; [apply (St_take_u8 true z)|]. intro u. apply Safe_if; [apply Safe_cerr|].
    eapply Safe_bind; [apply St_remaining|]. intro r2. apply Safe_if; [apply Safe_cerr|apply Hk]. }
  unfold typed_prim.
  destruct ty as [|p]; [exact Hdef|].
  do 5 (try destruct p as [p|p|]); try exact Hdef.
  all: (eapply Safe_bind with (Q := fun _ => St true z); [|intro; apply Safe_ret; auto]).
  all: try (unfold bit_skip_prim; apply (Hbit _ (fun _ => skip_all_lim)); intro; apply St_skip_all).
  all: try (unfold bit_from_prim; apply (Hbit _ (fun unused => bits <- take_all_lim;; ret (unused, bits))); intro;
            eapply Safe_bind; [apply St_take_all|]; intro; apply Safe_ret; auto).
  all: try (unfold to_null; eapply Safe_bind; [apply St_remaining|]; intro r; apply Safe_if; [apply Safe_cerr|apply Safe_ret; auto]).
  all: try (unfold unsigned_int_from_primitive; eapply Safe_bind; [apply St_uns_check_head|]; intro;
            eapply Safe_conseq; [apply St_integer_from_primitive|apply VZ_St|auto]).
  all: try (unfold to_bool; solve [st_auto z]).
  all: try apply St_integer_from_primitive.
  - unfold oid_skip_prim.
    eapply Safe_conseq; [apply (St_with_slice_all_gen z (fun _ => True) oid_check_content)| |auto].
    + intros c _. unfold oid_check_content.
      destruct (rev c) as [|n ?]; [discriminate|]. destruct (negb (N.land n 128 =? 0)); discriminate.
    + intros s Hs. split; [exact Hs|exact I].
  - unfold oid_from_prim. eapply Safe_bind; [apply St_take_all|]. intro c.
    destruct (oid_check_content c); try apply Safe_cerr. apply Safe_ret; auto.
Qed.

(* ---- skip_one / skip / skip_all ---- *)
Definition ILz (c : cons) (b : bool) (z : gh) (s : src) : Prop := inv c s /\ St b z s.

Lemma St_skip_one fuel c b z :
  Safe (ILz c b z) (skip_one fuel c) (fun r s => ILz (snd r) b z s /\ kp c (snd r)).
Proof.
  unfold skip_one. eapply Safe_bind; [apply St_skip_opt|]. intros [[o c'] tr]. apply Safe_ret.
  intros s (Hi & Hs & Hk). cbn [fst snd] in *. split; [split|]; assumption.
Qed.
Lemma St_skip_mand fuel c fl_ b z :
  Safe (ILz c b z) (skip_mand fuel c fl_) (fun r s => ILz (fst r) b z s /\ kp c (fst r)).
Proof.
  unfold skip_mand. eapply Safe_bind; [apply St_skip_opt|]. intros [[o c'] tr].
  destruct o; [apply Safe_cerr|apply Safe_ret].
  intros s (Hi & Hs & Hk). cbn [fst snd] in *. split; [split|]; assumption.
Qed.
Lemma St_skip_all_loop fuel : forall c n b z,
  Safe (ILz c b z) (skip_all fuel c n) (fun r s => ILz (snd r) b z s /\ kp c (snd r)).
Proof.
  induction fuel as [|fu IH]; intros c n b z; [apply Safe_nofuel|].
  change (skip_all (S fu) c n) with (r <- skip_one (S fu) c;; let '(o, c') := r in
            match o with SkNone => ret (n, c') | SkSome => skip_all fu c' (n + 1) end).
  eapply Safe_bind; [apply St_skip_one|]. intros [o c'].
  apply Safe_conseq with (P := fun s => kp c c' /\ ILz c' b z s)
                         (Q := fun r s => ILz (snd r) b z s /\ kp c (snd r)); [| |auto].
  2:{ intros s [Hi Hk]. cbn [snd] in *. auto. }
  apply Safe_pure. intro Hk.
  destruct o; [apply Safe_ret; intros s Hs; cbn [snd]; auto|].
  eapply Safe_conseq; [apply (IH c' (n + 1) b z)|auto|].
  intros [k' c''] s [Hi Hk']. cbn [snd] in *. split; [exact Hi|]. eapply kp_trans; eauto.
Qed.

(* ---- capture: into_bytes never asks for more than the enclosing limit ---- *)
Theorem St_capture {T} (c : cons) (op : cons -> M (T * cons)) b z :
  (forall b' z', Safe (ILz c b' z') (op c) (fun rc s => ILz (snd rc) b' z' s /\ kp c (snd rc))) ->
  Safe (ILz c b z) (capture c op) (fun r s => ILz (snd r) b z s /\ kp c (snd r)).
Proof.
  intros Hop s0 Hn0 [Hi [Hl Hd]].
  unfold capture. unfold bind at 1. unfold get at 1. cbv beta iota.
  unfold bind at 1.
  pose proof (Hop b z s0 Hn0 (conj Hi (conj Hl Hd))) as H1.
  destruct (lim s0) as [l0|] eqn:El0.
  - (* a second ghost: the limit cannot have grown *)
    assert (Hd2 : Dl ((Z.of_N (len (rem s0)) - Z.of_N l0)%Z, l0) s0).
    { unfold Dl. rewrite El0. cbn [fst snd]. lia. }
    pose proof (Hop b _ s0 Hn0 (conj Hi (conj Hl Hd2))) as H2.
    destruct (op c s0) as [[[r c']| | | |] s1]; auto.
    destruct H1 as (Hn1 & [Hi1 [Hl1 Hd1]] & Hk). destruct H2 as (_ & [_ [_ Hd1']] & _).
    cbn [snd] in *.
    unfold bind at 1. unfold get at 1. cbv beta iota.
    assert (Hb : b = true) by (unfold L, lk in Hl; rewrite El0 in Hl; congruence). subst b.
    unfold L, lk in Hl1. destruct (lim s1) as [l1|] eqn:El1; [|discriminate].
    unfold Dl in Hd1'. rewrite El1 in Hd1'. cbn [fst snd] in Hd1'.
    assert (Hnn : len (rem s0) - len (rem s1) = l0 - l1) by lia.
    rewrite Hnn. unfold bind at 1.
    replace (l0 <? l0 - l1) with false by lia. unfold ret at 1. cbv beta iota.
    unfold bind, put, ret. cbv beta iota. cbn [lim_sub].
    split; [exact Hn1|]. cbn [snd]. split.
    + split.
      * unfold inv, with_state. cbn [cst]. intro E. unfold lk. cbn [lim]. reflexivity.
      * split; [unfold L, lk; reflexivity|]. unfold Dl in *. rewrite El1 in Hd1. cbn [lim rem]. lia.
    + unfold kp, with_state in *. cbn [cst]. exact Hk.
  - destruct (op c s0) as [[[r c']| | | |] s1]; auto.
    destruct H1 as (Hn1 & [Hi1 [Hl1 Hd1]] & Hk). cbn [snd] in *.
    unfold bind at 1. unfold get at 1. cbv beta iota.
    unfold bind, put, ret. cbv beta iota. cbn [lim_sub].
    split; [exact Hn1|]. cbn [snd].
    assert (Hb : b = false) by (unfold L, lk in Hl; rewrite El0 in Hl; congruence). subst b.
    split.
    + split.
      * unfold inv, with_state. cbn [cst]. intro E. exfalso.
        assert (Hc : cst c = Definite) by (apply Hk; exact E). specialize (Hi Hc). unfold lk in Hi. rewrite El0 in Hi. discriminate.
      * split; [reflexivity|exact I].
    + unfold kp, with_state in *. cbn [cst]. exact Hk.
Qed.

(* ---- raw Source scripts on a primitive's content (within the contract:
   slice/bytes/advance only inside what the last request granted) ---- *)
Lemma Safe_catch_St {A} z (m : M A) d e k :
  Safe (St true z) m (fun _ => St true z) ->
  (forall s s', nf s -> m s = (CErr, s') -> s' = s) ->
  Safe (St true z) (catch_cerr m d e k) (fun _ => St true z).
Proof.
  intros Hm Hc s Hn Hs. specialize (Hm s Hn Hs). unfold catch_cerr.
  destruct (m s) as [[a| | | |] s'] eqn:E; auto.
  rewrite (Hc s s' Hn E). split; [exact Hn|exact Hs].
Qed.

Lemma cerr_state_take_u8 s s' : nf s -> take_u8 s = (CErr, s') -> s' = s.
Proof.
  intro Hn. unfold take_u8, bind. rewrite (tick_nf s Hn). destruct (lim s) as [[|p]|], (rem s); congruence.
Qed.
Lemma cerr_state_need n s s' : nf s -> need n s = (CErr, s') -> s' = s.
Proof. intro Hn. unfold need, bind. rewrite (tick_nf s Hn). destruct (avail s <? n); congruence. Qed.
Lemma need_ok_state n s s' : nf s -> need n s = (Ok tt, s') -> s' = s /\ n <= avail s.
Proof. intro Hn. unfold need, bind. rewrite (tick_nf s Hn). destruct (avail s <? n) eqn:E; [congruence|]. intros [= <-]. split; [reflexivity|lia]. Qed.
Lemma advance_np n s : n <= avail s -> exists s', advance n s = (Ok tt, s').
Proof.
  intro H. unfold advance, avail in *. destruct (lim s) as [l|].
  - replace (len (rem s) <? n) with false by lia. replace (l <? n) with false by lia. eexists; reflexivity.
  - replace (len (rem s) <? n) with false by lia. eexists; reflexivity.
Qed.

Lemma cerr_state_take_all s s' : nf s -> take_all_lim s = (CErr, s') -> s' = s.
Proof.
  intro Hn. unfold take_all_lim. destruct (lim s) as [l|] eqn:El; [|congruence].
  unfold bind at 1. destruct (need l s) as [[[]| | | |] s1] eqn:E; try congruence.
  - destruct (need_ok_state l s s1 Hn E) as [-> Ha]. unfold bind, get, ret.
    destruct (advance_np l s Ha) as [s2 ->]. congruence.
  - intros [= <-]. eapply cerr_state_need; eauto.
Qed.
Lemma cerr_state_skip_all s s' : nf s -> skip_all_lim s = (CErr, s') -> s' = s.
Proof.
  intro Hn. unfold skip_all_lim. destruct (lim s) as [l|] eqn:El; [|congruence].
  unfold bind at 1. destruct (need l s) as [[[]| | | |] s1] eqn:E; try congruence.
  - destruct (need_ok_state l s s1 Hn E) as [-> Ha].
    destruct (advance_np l s Ha) as [s2 ->]. congruence.
  - intros [= <-]. eapply cerr_state_need; eauto.
Qed.
Lemma cerr_state_slice_all s s' : nf s -> slice_all_lim s = (CErr, s') -> s' = s.
Proof.
  intro Hn. unfold slice_all_lim. destruct (lim s) as [l|] eqn:El; [|congruence].
  unfold bind at 1. destruct (need l s) as [[[]| | | |] s1] eqn:E; try congruence.
  - destruct (need_ok_state l s s1 Hn E) as [-> Ha]. unfold bind, get, ret. congruence.
  - intros [= <-]. eapply cerr_state_need; eauto.
Qed.
Lemma slice_all_ok_state s c s' : nf s -> slice_all_lim s = (Ok c, s') -> s' = s /\ len c <= avail s.
Proof.
  intro Hn. unfold slice_all_lim. destruct (lim s) as [l|] eqn:El; [|congruence].
  unfold bind at 1. destruct (need l s) as [[[]| | | |] s1] eqn:E; try congruence.
  destruct (need_ok_state l s s1 Hn E) as [-> Ha]. unfold bind, get, ret. intros [= <- <-]. split; [reflexivity|].
  unfold len, firstN. rewrite firstn_length. unfold avail in Ha. rewrite El in Ha. unfold avail. rewrite El. unfold len in *. lia.
Qed.
Lemma cerr_state_with_slice_all_id s s' : nf s -> with_slice_all (fun c => Ok c) s = (CErr, s') -> s' = s.
Proof.
  intro Hn. unfold with_slice_all. unfold bind at 1.
  destruct (slice_all_lim s) as [[c| | | |] s1] eqn:E; try congruence.
  - destruct (slice_all_ok_state s c s1 Hn E) as [-> Ha]. unfold bind, ret.
    destruct (advance_np (len c) s Ha) as [s2 ->]. congruence.
  - intros [= <-]. eapply cerr_state_slice_all; eauto.
Qed.

Definition SG (z : gh) (g : N) (s : src) : Prop := St true z s /\ g <= avail s.

Lemma avail_le_St z s : St true z s -> True. Proof. auto. Qed.

Lemma St_advance_granted z k : Safe (fun s => St true z s /\ k <= avail s) (advance k)
                                    (fun _ s => St true z s).
Proof.
  intros s Hn [[Hl Hd] Hk]. nfs. unfold L, lk in Hl. cbn [lim] in Hl. destruct l as [x|]; [|discriminate].
  unfold avail in Hk. cbn [lim rem] in Hk. unfold advance. cbn [rem lim flt].
  replace (len d <? k) with false by lia. replace (x <? k) with false by lia.
  split; [reflexivity|]. split; [reflexivity|]. unfold Dl in *. cbn [lim rem] in *. rewrite len_skipN. lia.
Qed.

Lemma St_zero z s : St true z s -> SG z 0 s. Proof. intro H. split; [exact H|lia]. Qed.

Theorem St_run_sop o g z : Safe (SG z g) (run_sop o g) (fun r s => SG z (fst r) s).
Proof.
  assert (Hz : forall A (m : M A) (f : A -> log),
            Safe (St true z) m (fun _ => St true z) ->
            Safe (SG z g) (r <- m ;; ret (0, f r)) (fun r s => SG z (fst r) s)).
  { intros A m f Hm. eapply Safe_bind with (Q := fun _ => St true z).
    - eapply Safe_conseq; [exact Hm|intros s [H _]; exact H|auto].
    - intro r. apply Safe_ret. intros s Hs. cbn [fst]. apply St_zero, Hs. }
  destruct o as [n| |a b|k|n| | | | | | | ]; cbn [run_sop].
  - (* request *)
    intros s Hn [Hs Hg]. unfold bind. rewrite (tick_nf s Hn). unfold get_avail, ret.
    split; [exact Hn|]. cbn [fst]. split; [exact Hs|lia].
  - intros s Hn Hs. unfold bind, get_visible, ret. split; [exact Hn|exact Hs].
  - intros s Hn Hs. unfold bind, get_visible, ret. split; [exact Hn|exact Hs].
  - (* advance within the grant *)
    intros s Hn [Hs Hg].
    assert (Hk : N.min k g <= avail s) by lia.
    pose proof (St_advance_granted z (N.min k g) s Hn (conj Hs Hk)) as H.
    unfold bind. destruct (advance (N.min k g) s) as [[[]| | | |] s'] eqn:E; auto.
    destruct H as [Hn' Hs']. unfold ret. split; [exact Hn'|]. cbn [fst]. split; [exact Hs'|].
    (* avail shrinks by exactly the amount advanced *)
    destruct Hs as [Hl Hd]. destruct s as [d l f]. unfold L, lk in Hl. cbn [lim] in Hl.
    destruct l as [x|]; [|discriminate]. unfold advance in E. cbn [rem lim flt] in E.
    unfold avail in Hg. cbn [lim rem] in Hg.
    replace (len d <? N.min k g) with false in E by lia. replace (x <? N.min k g) with false in E by lia.
    injection E as <-. unfold avail. cbn [lim rem]. rewrite len_skipN. lia.
  - (* skip *)
    intros s Hn [Hs Hg]. unfold bind. rewrite (tick_nf s Hn). unfold get_avail.
    assert (Hk : N.min (avail s) n <= avail s) by lia.
    pose proof (St_advance_granted z (N.min (avail s) n) s Hn (conj Hs Hk)) as H.
    destruct (advance (N.min (avail s) n) s) as [[[]| | | |] s'] eqn:E; auto.
    destruct H as [Hn' Hs']. unfold ret. split; [exact Hn'|]. cbn [fst]. apply St_zero, Hs'.
  - eapply Safe_bind with (Q := fun _ => St true z).
    + eapply Safe_conseq; [apply (Safe_catch_St z take_u8); [apply St_take_u8|apply cerr_state_take_u8]|intros s [H _]; exact H|auto].
    + intro r. apply Safe_ret. intros s Hs. apply St_zero, Hs.
  - apply (Hz _ take_opt_u8 (fun o => match o with Some b => [Z.of_N b] | None => [zm2] end)), St_take_opt_u8.
  - eapply Safe_bind with (Q := fun _ => St true z).
    + eapply Safe_conseq; [apply (Safe_catch_St z take_all_lim); [apply St_take_all|apply cerr_state_take_all]|intros s [H _]; exact H|auto].
    + intro r. apply Safe_ret. intros s Hs. apply St_zero, Hs.
  - eapply Safe_bind with (Q := fun _ => St true z).
    + eapply Safe_conseq; [apply (Safe_catch_St z skip_all_lim); [apply St_skip_all|apply cerr_state_skip_all]|intros s [H _]; exact H|auto].
    + intro r. apply Safe_ret. intros s Hs. apply St_zero, Hs.
  - eapply Safe_bind with (Q := fun _ => St true z).
    + eapply Safe_conseq; [apply (Safe_catch_St z slice_all_lim); [|apply cerr_state_slice_all]|intros s [H _]; exact H|auto].
      intros s Hn Hs. pose proof (Safe_slice_all s Hn (proj1 Hs)) as H.
      destruct (slice_all_lim s) as [[c| | | |] s'] eqn:E; auto.
      destruct (slice_all_ok_state s c s' Hn E) as [-> _]. split; [exact Hn|exact Hs].
    + intro r. apply Safe_ret. intros s Hs. apply St_zero, Hs.
  - eapply Safe_bind with (Q := fun _ => St true z).
    + eapply Safe_conseq; [apply (Safe_catch_St z (with_slice_all (fun c => Ok c))); [|apply cerr_state_with_slice_all_id]|intros s [H _]; exact H|auto].
      eapply Safe_conseq; [apply (St_with_slice_all_gen z (fun _ => True) (fun c => Ok c))| |auto].
      * intros c _. discriminate.
      * intros s Hs. split; [exact Hs|exact I].
    + intro r. apply Safe_ret. intros s Hs. apply St_zero, Hs.
  - eapply Safe_bind with (Q := fun _ => SG z g).
    + intros s Hn [Hs Hg]. pose proof (St_remaining z s Hn Hs) as H.
      unfold remaining in *. destruct (lim s); [|contradiction]. split; [exact Hn|]. split; [exact Hs|exact Hg].
    + intro r. apply Safe_ret. auto.
Qed.

Theorem St_run_script sc : forall g lg z, Safe (SG z g) (run_script sc g lg) (fun _ => St true z).
Proof.
  induction sc as [|o r IH]; intros g lg z; cbn [run_script].
  - apply Safe_ret. intros s [H _]. exact H.
  - eapply Safe_bind; [apply St_run_sop|]. intros [g' l]. cbn [fst]. apply IH.
Qed.

(* ---- every decoding program: generic and typed reads, optional and
   tag-selective reads, skipping with filters, nested captures, raw scripts,
   mode switches - at any nesting ---- *)
Theorem St_exec fuel :
  (forall ps c lg b z,
     Safe (ILz c b z) (exec fuel ps c lg) (fun r s => ILz (snd r) b z s /\ kp c (snd r))) /\
  (forall bd ct b z,
     Safe (fun s => inv_ct ct s /\ St b z s) (exec_body fuel bd ct)
          (fun r s => inv_ct (snd r) s /\ St b z s /\ kp_ct ct (snd r))).
Proof.
  induction fuel as [|fu IH]; [split; intros; apply Safe_nofuel|].
  assert (Hseq : forall c c', kp c c' -> forall Q' : log * cons -> src -> Prop, True) by auto.
  split.
  - intros ps c lg b z. cbn [exec]. destruct ps as [|p rest]; [apply Safe_ret; intros s Hs; split; [exact Hs|apply kp_refl]|].
    eapply Safe_bind with (Q := fun r s => ILz (snd r) b z s /\ kp c (snd r)).
    2:{ intros [lg' c'].
        apply Safe_conseq with (P := fun s => kp c c' /\ ILz c' b z s)
                               (Q := fun r s => ILz (snd r) b z s /\ kp c (snd r)); [| |auto].
        2:{ intros s [Hi Hk]. cbn [snd] in *. auto. }
        apply Safe_pure. intro Hk.
        eapply Safe_conseq; [apply (proj1 IH rest c' lg' b z)|auto|].
        intros [l'' c''] s [Hi Hk']. cbn [snd] in *. split; [exact Hi|]. eapply kp_trans; eauto. }
    destruct p as [opt kind ex bd|variant fk fa fb|qs| | | |m].
    + (* PTake *)
      eapply Safe_bind.
      * apply St_process_next_value. intros t ct b' z'.
        assert (Hb : Safe (fun s => inv_ct ct s /\ St b' z' s)
                  (r <- exec_body fu bd ct;; let '(l, ct') := r in
                   ret (ltag t match ct with CCons _ => true | CPrim _ => false end ++ l, ct'))
                  (fun rc s => inv_ct (snd rc) s /\ St b' z' s /\ kp_ct ct (snd rc))).
        { eapply Safe_bind; [apply (proj2 IH)|]. intros [l ct']. apply Safe_ret. auto. }
        destruct kind as [|[q|q|]]; try exact Hb; destruct ct; try exact Hb; try apply Safe_cerr;
          destruct q; try exact Hb; apply Safe_cerr.
      * intros [[l|] c']; [apply Safe_ret; intros s (Hi & Hs & Hk); cbn [snd]; split; [split|]; assumption|].
        destruct opt; [apply Safe_ret; intros s (Hi & Hs & Hk); cbn [snd]; split; [split|]; assumption|apply Safe_cerr].
    + (* PSkip *)
      destruct variant as [|[q|q|]].
      * eapply Safe_bind; [apply St_skip_opt|]. intros [[o c'] tr]. apply Safe_ret.
        intros s (Hi & Hs & Hk). cbn [fst snd] in *. split; [split|]; assumption.
      * eapply Safe_bind; [apply St_skip_all_loop|]. intros [k' c']. apply Safe_ret. auto.
      * destruct q.
        -- eapply Safe_bind; [apply St_skip_all_loop|]. intros [k' c']. apply Safe_ret. auto.
        -- eapply Safe_bind; [apply St_skip_all_loop|]. intros [k' c']. apply Safe_ret. auto.
        -- eapply Safe_bind; [apply St_skip_one|]. intros [o c']. apply Safe_ret. auto.
      * eapply Safe_bind; [apply St_skip_mand|]. intros [c' tr]. apply Safe_ret. auto.
    + (* PCapture: the body is itself a program *)
      eapply Safe_bind.
      * apply (St_capture c (fun c0 => exec fu qs c0 []) b z). intros b' z'. apply (proj1 IH).
      * intros [[bs l] c']. apply Safe_ret. auto.
    + (* PCaptureOne *)
      unfold capture_one. eapply Safe_bind with (Q := fun r s => ILz (snd r) b z s /\ kp c (snd r)).
      * eapply Safe_bind.
        -- apply (St_capture c _ b z). intros b' z'.
           eapply Safe_bind with (Q := fun rc s => ILz (snd rc) b' z' s /\ kp c (snd rc)); [|intro r; apply Safe_ret; auto].
           unfold mandatory. eapply Safe_bind with (Q := fun rc s => ILz (snd rc) b' z' s /\ kp c (snd rc)).
           ++ eapply Safe_bind; [apply St_skip_one|]. intros [o c1]. apply Safe_ret. auto.
           ++ intros [[v|] c1]; [apply Safe_ret; auto|apply Safe_cerr].
        -- intros [[bs u] c']. apply Safe_ret. intros s H. exact H.
      * intros [bs c']. apply Safe_ret. auto.
    + (* PCaptureAll *)
      unfold capture_all. eapply Safe_bind with (Q := fun r s => ILz (snd r) b z s /\ kp c (snd r)).
      * eapply Safe_bind.
        -- apply (St_capture c _ b z). intros b' z'. apply St_skip_all_loop.
        -- intros [[bs u] c']. apply Safe_ret. intros s H. exact H.
      * intros [bs c']. apply Safe_ret. auto.
    + (* PReadAll *)
      eapply Safe_bind; [apply St_read_all|]. intros [ts c']. apply Safe_ret.
      intros s (Hi & Hs & Hk). cbn [snd] in *. split; [split|]; assumption.
    + (* PSetMode *)
      apply Safe_ret. intros s [Hi Hs]. cbn [snd]. split; [split; [exact Hi|exact Hs]|]. unfold kp. cbn. tauto.
  - intros bd ct b z. cbn [exec_body].
    destruct bd as [|ps|sc| |ty|m bd']; destruct ct as [md|c].
    + (* BGeneric, primitive *)
      eapply Safe_bind with (Q := fun _ s => St true z s /\ b = true).
      { intros s Hn [Hk [Hl Hd]]. cbn in Hk. pose proof (St_take_all z s Hn (conj Hk Hd)) as H.
        destruct (take_all_lim s) as [[a| | | |] s']; auto. destruct H as [H1 H2]. split; [exact H1|].
        split; [exact H2|]. unfold L in *. congruence. }
      intro bs. apply Safe_ret. intros s [Hs Hb]. subst b. cbn [snd inv_ct kp_ct]. split; [exact (proj1 Hs)|]. split; [exact Hs|exact I].
    + eapply Safe_bind; [apply St_read_all|]. intros [ts c']. apply Safe_ret. auto.
    + apply Safe_cerr.
    + eapply Safe_bind; [apply (proj1 IH)|]. intros [l c']. apply Safe_ret.
      intros s [[Hi Hs] Hk]. cbn [snd inv_ct kp_ct] in *. auto.
    + (* BScript, primitive *)
      eapply Safe_bind with (Q := fun _ s => St true z s /\ b = true).
      { intros s Hn [Hk [Hl Hd]]. cbn in Hk.
        assert (Hsg : SG z 0 s) by (split; [split; assumption|lia]).
        pose proof (St_run_script sc 0 [] z s Hn Hsg) as H.
        destruct (run_script sc 0 [] s) as [[a| | | |] s']; auto. destruct H as [H1 H2]. split; [exact H1|].
        split; [exact H2|]. unfold L in *. congruence. }
      intro l. apply Safe_ret. intros s [Hs Hb]. subst b. cbn [snd inv_ct kp_ct]. split; [exact (proj1 Hs)|]. split; [exact Hs|exact I].
    + apply Safe_cerr.
    + apply Safe_ret. intros s [Hi Hs]. cbn [snd kp_ct]. auto.
    + apply Safe_ret. intros s [Hi Hs]. cbn [snd kp_ct]. split; [exact Hi|]. split; [exact Hs|apply kp_refl].
    + (* BTyped, primitive *)
      eapply Safe_bind with (Q := fun _ s => St true z s /\ b = true).
      { intros s Hn [Hk [Hl Hd]]. cbn in Hk. pose proof (St_typed_prim ty md z s Hn (conj Hk Hd)) as H.
        destruct (typed_prim ty md s) as [[a| | | |] s']; auto. destruct H as [H1 H2]. split; [exact H1|].
        split; [exact H2|]. unfold L in *. congruence. }
      intro l. apply Safe_ret. intros s [Hs Hb]. subst b. cbn [snd inv_ct kp_ct]. split; [exact (proj1 Hs)|]. split; [exact Hs|exact I].
    + apply Safe_cerr.
    + eapply Safe_conseq; [apply (proj2 IH bd' (CPrim (mode_of_n m)) b z)|auto|].
      intros [l ct'] s (Hi & Hs & Hk). cbn [snd] in *. destruct ct'; [auto|contradiction].
    + eapply Safe_conseq; [apply (proj2 IH bd' (CCons (mkCons (cst c) (mode_of_n m))) b z)|auto|].
      intros [l ct'] s (Hi & Hs & Hk). cbn [snd] in *. destruct ct'; [contradiction|]. auto.
Qed.

(* decoding a whole input with ANY program never panics, and neither does a
   program started anywhere inside an enclosing value *)
Theorem any_program_never_panics fuel m ps d :
  fst (decode_src m (fun c => exec fuel ps c []) (pure_src d None)) <> Panic.
Proof.
  assert (H : Safe (fun s => St false (0%Z, 0) s) (decode_src m (fun c => exec fuel ps c [])) (fun _ _ => True)).
  { unfold decode_src. eapply Safe_bind with (Q := fun rc s => St false (0%Z, 0) s).
    - eapply Safe_conseq; [apply (proj1 (St_exec fuel) ps (mkCons Unbounded m) [] false (0%Z, 0))| |].
      + intros s Hs. split; [|exact Hs]. unfold inv. cbn. discriminate.
      + intros a s [[_ Hs] _]. exact Hs.
    - intros [r c]. eapply Safe_bind; [apply (St_cons_exhausted c false (0%Z, 0))|]. intro u.
      apply Safe_ret. auto. }
  specialize (H (pure_src d None) eq_refl (conj eq_refl I)).
  destruct (decode_src m (fun c => exec fuel ps c []) (pure_src d None)) as [[a| | | |] s']; cbn; try discriminate.
  contradiction.
Qed.

Theorem any_program_never_panics_anywhere fuel ps c lg s :
  nf s -> inv c s -> fst (exec fuel ps c lg s) <> Panic.
Proof.
  intros Hn Hi.
  assert (H : Safe (inv c) (exec fuel ps c lg) (fun _ _ => True)).
  { apply Safe_any_delta. intro z. intros s0 Hn0 [Hi0 Hd0].
    pose proof (proj1 (St_exec fuel) ps c lg (lk s0) z s0 Hn0 (conj Hi0 (conj eq_refl Hd0))) as H.
    destruct (exec fuel ps c lg s0) as [[a| | | |] s']; auto. split; [exact (proj1 H)|exact I]. }
  specialize (H s Hn Hi).
  destruct (exec fuel ps c lg s) as [[a| | | |] s']; cbn; try discriminate. contradiction.
Qed.

(* in terms of the very function the correspondence streams evaluate: the
   model never predicts observation [3] (panic) for any program on any input *)
Theorem run_program_never_panics m code d : run_program m code d <> [3%Z].
Proof.
  unfold run_program. destruct code as [|n r]; [discriminate|].
  destruct (parse_progs _ _ r) as [[ps [|x rest]]|]; try discriminate.
  pose proof (any_program_never_panics (S (S (length (n :: r) + 2 * length d))) m ps d) as H.
  destruct (decode_src m _ (pure_src d None)) as [[lg| | | |] s']; cbn [fst] in H; try discriminate.
  congruence.
Qed.
