(* C08 continued: the fault relation for the typed leaf readers, capture, raw
   Source scripts and every decoding program. *)
From Coq Require Import Lia ZifyBool ZifyN.
Require Import BV.Model.Base BV.Model.SrcB BV.Model.Length BV.Model.Tag BV.Model.Twos BV.Model.Int
               BV.Model.BitStr BV.Model.Oid BV.Model.Content BV.Model.Prog.
Require Import BV.Proofs.Bits BV.Proofs.SrcBP BV.Proofs.FaultP.
Arguments N.add : simpl never. Arguments N.sub : simpl never.
Arguments N.ltb : simpl never. Arguments N.leb : simpl never. Arguments N.eqb : simpl never.
Arguments N.min : simpl never.

Lemma Faulty_int_check_head : Faulty int_check_head.
Proof.
  unfold int_check_head. apply Faulty_bind; [apply Faulty_tick|]. intros _.
  apply Faulty_agnostic. split.
  - intros [d l f0] f. unfold setflt. cbn [rem lim]. unfold visible. cbn [lim rem].
    destruct (match l with Some l0 => if len d <=? l0 then d else firstN l0 d | None => d end) as [|b0 [|b1 v]];
      try reflexivity.
    destruct (((b0 =? 0) && negb (bit8 b1)) || ((b0 =? 255) && bit8 b1)); reflexivity.
  - intro s. destruct (visible s) as [|b0 [|b1 v]]; try discriminate.
    destruct (((b0 =? 0) && negb (bit8 b1)) || ((b0 =? 255) && bit8 b1)); discriminate.
Qed.

Lemma Faulty_uns_check_head : Faulty uns_check_head.
Proof.
  unfold uns_check_head. apply Faulty_bind; [apply Faulty_int_check_head|]. intros _.
  apply Faulty_agnostic. split.
  - intros [d l f0] f. unfold setflt. cbn [rem lim]. unfold visible. cbn [lim rem].
    destruct (match l with Some l0 => if len d <=? l0 then d else firstN l0 d | None => d end) as [|b0 v];
      try reflexivity.
    destruct (bit8 b0); reflexivity.
  - intro s. destruct (visible s) as [|b0 v]; try discriminate. destruct (bit8 b0); discriminate.
Qed.

Lemma slice_signed_ns w c : slice_signed w c <> SErr.
Proof. unfold slice_signed. destruct (N.of_nat w <? len c); [discriminate|]. destruct c; discriminate. Qed.
Lemma slice_unsigned_ns w c : slice_unsigned w c <> SErr.
Proof.
  unfold slice_unsigned. destruct c as [|b0 r]; [discriminate|]. destruct (bit8 b0); [discriminate|].
  destruct (len (if b0 =? 0 then r else b0 :: r) =? 0); [discriminate|].
  destruct (N.of_nat w <? len (if b0 =? 0 then r else b0 :: r)); discriminate.
Qed.

Ltac faulty_auto :=
  repeat first
    [ apply Faulty_cerr | apply Faulty_ret | apply Faulty_if
    | apply Faulty_bind; [apply Faulty_take_u8|intros ?]
    | apply Faulty_bind; [apply Faulty_remaining|intros ?]
    | apply Faulty_bind; [apply Faulty_take_all|intros ?] ].

Theorem Faulty_int_accessor ty : Faulty (int_accessor ty).
Proof.
  assert (Hs : forall w, Faulty (signed_from_primitive w)).
  { intro w. unfold signed_from_primitive. apply Faulty_bind; [apply Faulty_int_check_head|]. intro.
    apply Faulty_with_slice_all, slice_signed_ns. }
  assert (Hu : forall w, Faulty (unsigned_from_primitive w)).
  { intro w. unfold unsigned_from_primitive. apply Faulty_bind; [apply Faulty_uns_check_head|]. intro.
    apply Faulty_with_slice_all, slice_unsigned_ns. }
  unfold int_accessor.
  destruct ty as [|p]; [|destruct p as [p|p|]; [destruct p as [p|p|]; [destruct p as [p|p|]| destruct p as [p|p|]|]
                                              |destruct p as [p|p|]; [destruct p as [p|p|]| destruct p as [p|p|]|]|]];
    try apply Hs; try apply Hu.
  all: try (destruct p; apply Hu).
  all: try (unfold u8_from_primitive, u16_from_primitive; apply Faulty_bind; [apply Faulty_uns_check_head|]; intro; faulty_auto).
  unfold i8_from_primitive. apply Faulty_bind; [apply Faulty_int_check_head|]. intro. faulty_auto.
Qed.

Lemma Faulty_integer_from_primitive : Faulty integer_from_primitive.
Proof. unfold integer_from_primitive. apply Faulty_bind; [apply Faulty_take_all|]. intros [|b0 [|b1 r]]; faulty_auto. Qed.

Theorem Faulty_typed_prim ty m : Faulty (typed_prim ty m).
Proof.
  assert (Hdef : Faulty (v <- int_accessor ty;; ret [v])).
  { apply Faulty_bind; [apply Faulty_int_accessor|]. intro. apply Faulty_ret. }
  unfold typed_prim.
  destruct ty as [|p]; [exact Hdef|].
  do 5 (try destruct p as [p|p|]); try exact Hdef.
  all: (apply Faulty_bind; [|intro; apply Faulty_ret]).
  all: try solve [unfold bit_skip_prim; faulty_auto; apply Faulty_skip_all].
  all: try solve [unfold bit_from_prim; faulty_auto].
  all: try solve [unfold to_null; faulty_auto].
  all: try solve [unfold to_bool; faulty_auto].
  all: try solve [apply Faulty_integer_from_primitive].
  all: try solve [unfold unsigned_int_from_primitive; apply Faulty_bind; [apply Faulty_uns_check_head|]; intro; apply Faulty_integer_from_primitive].
  - unfold oid_skip_prim. apply Faulty_with_slice_all. intro c. unfold oid_check_content.
    destruct (rev c) as [|n ?]; [discriminate|]. destruct (negb (N.land n 128 =? 0)); discriminate.
  - unfold oid_from_prim. apply Faulty_bind; [apply Faulty_take_all|]. intro c. destruct (oid_check_content c); faulty_auto.
Qed.

(* ---- skip_one / skip / skip_all ---- *)
Lemma Faulty_skip_one fuel c : Faulty (skip_one fuel c).
Proof. unfold skip_one. apply Faulty_bind; [apply Faulty_skip_opt|]. intros [[o c'] tr]. apply Faulty_ret. Qed.
Lemma Faulty_skip_mand fuel c fl : Faulty (skip_mand fuel c fl).
Proof.
  unfold skip_mand. apply Faulty_bind; [apply Faulty_skip_opt|]. intros [[o c'] tr].
  destruct o; [apply Faulty_cerr|apply Faulty_ret].
Qed.
Lemma Faulty_skip_all_loop fuel : forall c n, Faulty (skip_all fuel c n).
Proof.
  induction fuel as [|f IH]; intros c n; [apply Faulty_nofuel|].
  change (skip_all (S f) c n) with (r <- skip_one (S f) c;; let '(o, c') := r in
            match o with SkNone => ret (n, c') | SkSome => skip_all f c' (n + 1) end).
  apply Faulty_bind; [apply Faulty_skip_one|]. intros [o c']. destruct o; [apply Faulty_ret|apply IH].
Qed.

(* ---- capture: the enclosing source is advanced by what the closure consumed,
   with whatever request budget the closure left ---- *)
Theorem Faulty_capture {T} (c : cons) (op : cons -> M (T * cons)) : Faulty (op c) -> Faulty (capture c op).
Proof.
  intros Hop. unfold capture. apply Faulty_get_then.
  - intro s0. apply Faulty_bind; [exact Hop|]. intros [r c1].
    apply Faulty_agnostic. split.
    + intros [d1 l1 g1] f1. unfold bind, get, put, ret, panic, setflt. cbn [rem lim flt].
      destruct (lim s0) as [l|]; [destruct (l <? len (rem s0) - len d1)|]; reflexivity.
    + intros [d1 l1 g1]. unfold bind, get, put, ret, panic. cbn [rem lim flt].
      destruct (lim s0) as [l|]; [destruct (l <? len (rem s0) - len d1)|]; discriminate.
  - intros s0 f. reflexivity.
Qed.

(* ---- raw Source scripts ---- *)
Lemma Faulty_catch_cerr {A} (m : M A) d e k : Faulty m -> Faulty (catch_cerr m d e k).
Proof.
  intros Hm s Hf. destruct (Hm s Hf) as (H1 & H2 & n & H3). unfold catch_cerr.
  split; [destruct (m s) as [[a| | | |] s1]; cbn [fst] in *; congruence|].
  split; [destruct (m s) as [[a| | | |] s1]; cbn [fst snd] in *; exact H2|].
  exists n. intro j. specialize (H3 j). destruct (n <=? j).
  - rewrite H3. destruct (m s) as [[a| | | |] s1]; cbn [fst snd]; reflexivity.
  - destruct (m (setflt s (Some j))) as [[a| | | |] s1]; cbn [fst] in *; try discriminate. reflexivity.
Qed.

Lemma Faulty_run_sop o g : Faulty (run_sop o g).
Proof.
  destruct o; cbn [run_sop].
  - apply Faulty_bind; [apply Faulty_tick|]. intros _. apply Faulty_get_avail_then. intro a. apply Faulty_ret.
  - apply Faulty_get_visible_then. intro. apply Faulty_ret.
  - apply Faulty_get_visible_then. intro. apply Faulty_ret.
  - apply Faulty_bind; [apply Faulty_advance|]. intro. apply Faulty_ret.
  - apply Faulty_bind; [apply Faulty_tick|]. intros _. apply Faulty_get_avail_then. intro a.
    apply Faulty_bind; [apply Faulty_advance|]. intro. apply Faulty_ret.
  - apply Faulty_bind; [apply Faulty_catch_cerr, Faulty_take_u8|]. intro. apply Faulty_ret.
  - apply Faulty_bind; [apply Faulty_take_opt_u8|]. intro. apply Faulty_ret.
  - apply Faulty_bind; [apply Faulty_catch_cerr, Faulty_take_all|]. intro. apply Faulty_ret.
  - apply Faulty_bind; [apply Faulty_catch_cerr, Faulty_skip_all|]. intro. apply Faulty_ret.
  - apply Faulty_bind; [apply Faulty_catch_cerr, Faulty_slice_all|]. intro. apply Faulty_ret.
  - apply Faulty_bind; [apply Faulty_catch_cerr, Faulty_with_slice_all; intro; discriminate|]. intro. apply Faulty_ret.
  - apply Faulty_bind; [apply Faulty_remaining|]. intro. apply Faulty_ret.
Qed.
Lemma Faulty_run_script sc : forall g lg, Faulty (run_script sc g lg).
Proof.
  induction sc as [|o r IH]; intros g lg; cbn [run_script]; [apply Faulty_ret|].
  apply Faulty_bind; [apply Faulty_run_sop|]. intros [g' l]. apply IH.
Qed.

(* ---- every decoding program ---- *)
Theorem Faulty_exec fuel :
  (forall ps c lg, Faulty (exec fuel ps c lg)) /\ (forall bd ct, Faulty (exec_body fuel bd ct)).
Proof.
  induction fuel as [|f [IHe IHb]]; [split; intros; apply Faulty_nofuel|].
  split.
  - intros ps c lg. cbn [exec]. destruct ps as [|p rest]; [apply Faulty_ret|].
    apply Faulty_bind; [|intros [lg' c']; apply IHe].
    destruct p as [opt kind ex bd|variant fk fa fb|qs| | | |m].
    + apply Faulty_bind.
      * apply Faulty_process_next_value. intros t ct.
        assert (Hb : Faulty (r <- exec_body f bd ct;; let '(l, ct') := r in
                    ret (ltag t match ct with CCons _ => true | CPrim _ => false end ++ l, ct'))).
        { apply Faulty_bind; [apply IHb|]. intros [l ct']. apply Faulty_ret. }
        destruct kind as [|[q|q|]]; try exact Hb; destruct ct; try exact Hb; try apply Faulty_cerr;
          destruct q; try exact Hb; apply Faulty_cerr.
      * intros [[l|] c']; [apply Faulty_ret|]. destruct opt; [apply Faulty_ret|apply Faulty_cerr].
    + destruct variant as [|[q|q|]].
      * apply Faulty_bind; [apply Faulty_skip_opt|]. intros [[o c'] tr]. apply Faulty_ret.
      * apply Faulty_bind; [apply Faulty_skip_all_loop|]. intros [k' c']. apply Faulty_ret.
      * destruct q.
        -- apply Faulty_bind; [apply Faulty_skip_all_loop|]. intros [k' c']. apply Faulty_ret.
        -- apply Faulty_bind; [apply Faulty_skip_all_loop|]. intros [k' c']. apply Faulty_ret.
        -- apply Faulty_bind; [apply Faulty_skip_one|]. intros [o c']. apply Faulty_ret.
      * apply Faulty_bind; [apply Faulty_skip_mand|]. intros [c' tr]. apply Faulty_ret.
    + apply Faulty_bind; [apply Faulty_capture, IHe|]. intros [[bs l] c']. apply Faulty_ret.
    + unfold capture_one. apply Faulty_bind; [|intros [bs c']; apply Faulty_ret].
      apply Faulty_bind; [|intros [[bs u] c']; apply Faulty_ret].
      apply Faulty_capture. apply Faulty_bind; [|intro; apply Faulty_ret].
      unfold mandatory. apply Faulty_bind.
      * apply Faulty_bind; [apply Faulty_skip_one|]. intros [o c1]. apply Faulty_ret.
      * intros [[v|] c1]; [apply Faulty_ret|apply Faulty_cerr].
    + unfold capture_all. apply Faulty_bind; [|intros [bs c']; apply Faulty_ret].
      apply Faulty_bind; [|intros [[bs u] c']; apply Faulty_ret].
      apply Faulty_capture, Faulty_skip_all_loop.
    + apply Faulty_bind; [apply Faulty_read_all|]. intros [ts c']. apply Faulty_ret.
    + apply Faulty_ret.
  - intros bd ct. cbn [exec_body].
    destruct bd as [|ps|sc| |ty|m bd']; destruct ct as [md|c]; try apply Faulty_cerr; try apply Faulty_ret.
    + apply Faulty_bind; [apply Faulty_take_all|]. intro. apply Faulty_ret.
    + apply Faulty_bind; [apply Faulty_read_all|]. intros [ts c']. apply Faulty_ret.
    + apply Faulty_bind; [apply IHe|]. intros [l c']. apply Faulty_ret.
    + apply Faulty_bind; [apply Faulty_run_script|]. intro. apply Faulty_ret.
    + apply Faulty_bind; [apply Faulty_typed_prim|]. intro. apply Faulty_ret.
    + apply IHb.
    + apply IHb.
Qed.

(* for a whole input and any program: there is a number n of requests such
   that a source failing at request k <= n makes decoding return exactly the
   source error, and a source failing later (or never) changes nothing *)
Theorem program_source_failure_surfaces fuel m ps d :
  exists n, forall k,
    let faulty := decode_src m (fun c => exec fuel ps c []) (mkSrc d None (Some k)) in
    let clean := decode_src m (fun c => exec fuel ps c []) (mkSrc d None None) in
    if n <=? k then fst faulty = fst clean else fst faulty = SErr.
Proof.
  assert (HF : Faulty (decode_src m (fun c => exec fuel ps c []))).
  { unfold decode_src. apply Faulty_bind; [apply (proj1 (Faulty_exec fuel))|]. intros [r c].
    apply Faulty_bind; [apply Faulty_cons_exhausted|]. intro. apply Faulty_ret. }
  destruct (HF (mkSrc d None None) eq_refl) as (_ & _ & n & H).
  exists n. intro k. specialize (H k). cbv zeta. unfold setflt in H. cbn [rem lim] in H.
  destruct (n <=? k); [rewrite H; reflexivity|exact H].
Qed.
