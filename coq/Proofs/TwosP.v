(* Arithmetic of big-endian / two's-complement octet strings. *)
From Coq Require Import Lia ZifyBool ZifyN.
Require Import BV.Model.Base BV.Model.Twos.
Local Open Scope Z_scope.

Lemma pw_0 : pw 0 = 1. Proof. reflexivity. Qed.
Lemma pw_S k : pw (S k) = 256 * pw k.
Proof. unfold pw. rewrite Nat2Z.inj_succ, Z.pow_succ_r by lia. reflexivity. Qed.
Lemma pw_pos k : 0 < pw k.
Proof. unfold pw. apply Z.pow_pos_nonneg; lia. Qed.
Lemma pw_mono a b : (a <= b)%nat -> pw a <= pw b.
Proof. intro H. unfold pw. apply Z.pow_le_mono_r; lia. Qed.
Lemma pw_add a b : pw (a + b) = pw a * pw b.
Proof. unfold pw. rewrite Nat2Z.inj_add, Z.pow_add_r by lia. reflexivity. Qed.

Lemma be_acc_spec acc l : be_acc acc l = acc * pw (length l) + be_valZ l.
Proof.
  unfold be_valZ. revert acc. induction l as [|b r IH]; intro acc; cbn [be_acc length].
  - rewrite pw_0. lia.
  - rewrite IH, (IH (0 * 256 + Z.of_N b)), pw_S. lia.
Qed.

Lemma be_valZ_cons b r : be_valZ (b :: r) = Z.of_N b * pw (length r) + be_valZ r.
Proof. unfold be_valZ at 1. cbn [be_acc]. rewrite be_acc_spec. lia. Qed.

Lemma be_valZ_nil : be_valZ [] = 0. Proof. reflexivity. Qed.

Lemma be_valZ_bound l : octets_ok l = true -> 0 <= be_valZ l < pw (length l).
Proof.
  induction l as [|b r IH]; intro H.
  - cbn. unfold pw. cbn. lia.
  - cbn [octets_ok forallb] in H. apply andb_true_iff in H as [Hb Hr].
    unfold octet_ok in Hb. specialize (IH Hr).
    rewrite be_valZ_cons. cbn [length]. rewrite pw_S.
    assert (0 < pw (length r)) by apply pw_pos. nia.
Qed.

Lemma be_valZ_app a b : be_valZ (a ++ b) = be_valZ a * pw (length b) + be_valZ b.
Proof.
  induction a as [|x a IH]; cbn [app].
  - rewrite be_valZ_nil. lia.
  - rewrite !be_valZ_cons, IH, app_length, pw_add. lia.
Qed.

Lemma tc_val_cons b r : tc_val (b :: r) = sbyte b * pw (length r) + be_valZ r.
Proof. unfold tc_val. apply be_acc_spec. Qed.

Lemma sbyte_bound b : (b < 256)%N -> -128 <= sbyte b < 128.
Proof. intro H. unfold sbyte. destruct (b <? 128)%N eqn:E; lia. Qed.

(* value bounds by length *)
Lemma tc_val_bound c : octets_ok c = true -> c <> [] ->
  - (128 * pw (length c - 1)) <= tc_val c < 128 * pw (length c - 1).
Proof.
  destruct c as [|b r]; [congruence|]. intros H _.
  cbn [octets_ok forallb] in H. apply andb_true_iff in H as [Hb Hr]. unfold octet_ok in Hb.
  rewrite tc_val_cons. cbn [length]. replace (S (length r) - 1)%nat with (length r) by lia.
  pose proof (be_valZ_bound r Hr). pose proof (sbyte_bound b ltac:(lia)).
  assert (0 < pw (length r)) by apply pw_pos. nia.
Qed.

(* a minimal content of k+2 octets does not fit into k+1 octets *)
Lemma minimal_lower c : octets_ok c = true -> minimal c = true -> (2 <= length c)%nat ->
  tc_val c < - (128 * pw (length c - 2)) \/ 128 * pw (length c - 2) <= tc_val c.
Proof.
  destruct c as [|b0 [|b1 r]]; cbn [length]; try lia. intros H Hm _.
  cbn [octets_ok forallb] in H. apply andb_true_iff in H as [Hb0 H].
  apply andb_true_iff in H as [Hb1 Hr]. unfold octet_ok in Hb0, Hb1.
  replace (S (S (length r)) - 2)%nat with (length r) by lia.
  rewrite tc_val_cons. cbn [length]. rewrite be_valZ_cons, pw_S.
  pose proof (be_valZ_bound r Hr). assert (0 < pw (length r)) by apply pw_pos.
  cbn [minimal] in Hm. unfold sbyte.
  destruct (b0 <? 128)%N eqn:E0.
  - (* non-negative first octet *)
    destruct (b0 =? 0)%N eqn:Z0.
    + assert (128 <= b1)%N by lia. right. nia.
    + right. nia.
  - destruct (b0 =? 255)%N eqn:F0.
    + assert (b1 < 128)%N by lia. left. nia.
    + left. nia.
Qed.

(* sign *)
Lemma tc_val_sign b r : octets_ok (b :: r) = true ->
  (tc_val (b :: r) < 0 <-> (128 <= b)%N).
Proof.
  intro H. cbn [octets_ok forallb] in H. apply andb_true_iff in H as [Hb Hr]. unfold octet_ok in Hb.
  rewrite tc_val_cons. pose proof (be_valZ_bound r Hr). assert (0 < pw (length r)) by apply pw_pos.
  unfold sbyte. destruct (b <? 128)%N eqn:E; split; intro; try lia; nia.
Qed.
