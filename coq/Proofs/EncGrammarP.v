(* The encoders produce strings of the grammar, so the generic reader returns
   the encoded tree (C04, structure level); DER strings of the grammar are a
   function of the tree (C05, structure level). *)
From Coq Require Import Lia ZifyBool ZifyN.
Require Import BV.Model.Base BV.Model.SrcB BV.Model.Length BV.Model.Tag BV.Model.Content BV.Model.OctStr BV.Model.Encode.
Require Import BV.Proofs.Bits BV.Proofs.SrcBP BV.Proofs.LengthP BV.Proofs.TagP BV.Proofs.ContentP BV.Proofs.WinP BV.Proofs.EncodeP BV.Proofs.GrammarP.
Ltac Zify.zify_post_hook ::= Z.div_mod_to_equations.
Arguments N.add : simpl never. Arguments N.sub : simpl never.
Arguments N.ltb : simpl never. Arguments N.leb : simpl never. Arguments N.eqb : simpl never.

Notation etree := BV.Model.Encode.enc.

(* ---- the shortest length form: every mode reads it, DER reads nothing else ---- *)
Lemma length_write_octets n w : length_write n = Ok w -> octets_ok w = true.
Proof.
  rewrite length_write_cases.
  repeat match goal with |- context [if ?c then _ else _] => destruct c eqn:? end;
    try discriminate; intros [= <-]; unfold octets_ok, octet_ok; cbn [forallb]; rewrite ?andb_true_iff;
    repeat split; lia.
Qed.

Lemma lenoct_write m n w : length_write n = Ok w -> lenoct m n w.
Proof.
  intros Hw r. apply (length_spec_indep m w [] (Definite_ n)).
  pose proof (length_write_octets n w Hw) as Hok.
  destruct (length_read_spec_correct m (w ++ []) ltac:(rewrite app_nil_r; exact Hok)) as [H1 H2].
  pose proof (length_read_back n m w [] None Hw I) as Hrb. cbn [lim_sub] in Hrb.
  unfold pure_src in H1, H2. rewrite Hrb in H1. cbn [fst] in H1.
  destruct (length_read_spec m (w ++ [])) as [[v r0]| | | |]; try discriminate.
  cbn in H1. injection H1 as <-. specialize (H2 _ _ eq_refl). rewrite Hrb in H2. injection H2 as <-. reflexivity.
Qed.

Lemma encs_app m a da b db : encs m a da -> encs m b db -> encs m (a ++ b) (da ++ db).
Proof.
  intros Ha Hb. induction Ha as [|t ts d ds Ht Hts IH]; [exact Hb|].
  cbn [app]. rewrite <- app_assoc. apply Es_cons; assumption.
Qed.
Lemma encs_one m t d : GrammarP.enc m t d -> encs m [t] d.
Proof. intro H. rewrite <- (app_nil_r d). apply Es_cons; [exact H|constructor]. Qed.

(* ---- the structural encoders ---- *)
Definition tag_ok (t : tag) : Prop := legal_tag t /\ tag_eqb t END_OF_VALUE = false.

Fixpoint tlvs_of (e : etree) : list tlv :=
  match e with
  | EPrim t c => [TPrim t c]
  | ECons t inner => [TCons t (tlvs_of inner)]
  | ESeq es => (fix go (l : list etree) : list tlv :=
                  match l with [] => [] | x :: r => tlvs_of x ++ go r end) es
  | EOpt (Some x) => tlvs_of x
  | EOpt None => []
  | EChoice x => tlvs_of x
  | ENothing => []
  | EOctSlice t c => [TPrim t c]
  | EBitSlice t u c => [TPrim t (u :: c)]
  | ECaptured _ _ | EOctStr _ _ | EWrapped _ _ => []
  end.

Fixpoint structural (e : etree) : Prop :=
  match e with
  | EPrim t _ | EOctSlice t _ | EBitSlice t _ _ => tag_ok t
  | ECons t inner => tag_ok t /\ structural inner
  | ESeq es => (fix go (l : list etree) : Prop :=
                  match l with [] => True | x :: r => structural x /\ go r end) es
  | EOpt (Some x) => structural x
  | EOpt None => True
  | EChoice x => structural x
  | ENothing => True
  | ECaptured _ _ | EOctStr _ _ | EWrapped _ _ => False
  end.

Lemma prim_in_grammar m t c d : tag_ok t -> tlv_write t false c = Ok d -> encs m [TPrim t c] d.
Proof.
  intros [Hl He] H. unfold tlv_write in H. destruct (length_write (len c)) as [lw| | | |] eqn:E; try discriminate.
  injection H as <-. apply encs_one. apply E_prim; [exact Hl|exact He|apply lenoct_write, E].
Qed.

Theorem encoder_in_grammar e : forall m d, structural e -> enc_write m e = Ok d -> encs m (tlvs_of e) d.
Proof.
  induction e using enc_ind'; intros m d Hs Hw; cbn [enc_write tlvs_of structural] in *.
  - apply prim_in_grammar; assumption.
  - destruct Hs as [[Hl He] Hs]. destruct m.
    + destruct (enc_len Ber e) as [l| | | |] eqn:El; try discriminate. cbn [res_bind] in Hw.
      destruct (length_write l) as [lw| | | |] eqn:Elw; try discriminate. cbn [res_bind] in Hw.
      destruct (enc_write Ber e) as [b| | | |] eqn:Eb; try discriminate. injection Hw as <-.
      rewrite enc_len_is_written, Eb in El. injection El as <-.
      apply encs_one. apply E_def; [exact Hl|exact He|discriminate|apply lenoct_write, Elw|apply IHe; auto].
    + destruct (enc_write Cer e) as [b| | | |] eqn:Eb; try discriminate. injection Hw as <-.
      apply encs_one. change (tag_write true t ++ [128] ++ b ++ [0; 0]) with (tag_write true t ++ [128] ++ b ++ 0 :: [0]).
      apply E_indef; [exact Hl|exact He|discriminate|apply IHe; auto|apply (lenoct_write Cer 0 [0]); reflexivity].
    + destruct (enc_len Der e) as [l| | | |] eqn:El; try discriminate. cbn [res_bind] in Hw.
      destruct (length_write l) as [lw| | | |] eqn:Elw; try discriminate. cbn [res_bind] in Hw.
      destruct (enc_write Der e) as [b| | | |] eqn:Eb; try discriminate. injection Hw as <-.
      rewrite enc_len_is_written, Eb in El. injection El as <-.
      apply encs_one. apply E_def; [exact Hl|exact He|discriminate|apply lenoct_write, Elw|apply IHe; auto].
  - revert d Hs Hw. induction H as [|x r Hx Hr IH]; intros d Hs Hw.
    + injection Hw as <-. constructor.
    + destruct Hs as [Hsx Hsr].
      destruct (enc_write m x) as [a| | | |] eqn:Ea; try discriminate. cbn [res_bind] in Hw.
      match type of Hw with res_map _ (?g r) = _ => destruct (g r) as [b| | | |] eqn:Eb end; try discriminate.
      injection Hw as <-. apply encs_app; [apply Hx; auto|apply IH; auto].
  - injection Hw as <-. constructor.
  - apply IHe; assumption.
  - apply IHe; assumption.
  - injection Hw as <-. constructor.
  - contradiction.
  - contradiction.
  - destruct (mode_eqb m Cer); [discriminate|]. apply prim_in_grammar; assumption.
  - destruct (mode_eqb m Cer); [discriminate|]. apply prim_in_grammar; assumption.
  - contradiction.
Qed.

(* C04 at the level of structure: what the encoders write, the generic reader
   reads back as the tree that was encoded, consuming everything *)
Theorem encode_then_read e m d : structural e -> enc_write m e = Ok d -> octets_ok d = true ->
  decode_src m (read_all (S (length d))) (pure_src d None) = (Ok (tlvs_of e), pure_src [] None).
Proof.
  intros Hs Hw Hok. pose proof (encoder_in_grammar e m d Hs Hw) as He.
  apply wellformed_is_accepted; [exact He|exact Hok|].
  pose proof (proj2 (enc_size m) _ _ He). lia.
Qed.

(* ---- DER: the encoding is a function of the tree ---- *)
Lemma min_form_unique w n : min_len_ok w = true -> len_value w = n -> len w <= 5 ->
  length_write n = Ok w.
Proof.
  intros Hm Hv Hl. rewrite length_write_cases. unfold min_len_ok, len_value in *.
  destruct w as [|b ds]; [discriminate|]. destruct ds as [|a ds1].
  { subst n. rewrite Hm. reflexivity. }
  apply andb_prop in Hm as [Hm H128]. apply andb_prop in Hm as [Hm Hnz]. apply andb_prop in Hm as [Hb Hok].
  cbn [hd] in Hnz. rewrite !len_cons in *.
  apply octets_ok_cons in Hok as [Ha Hok1].
  destruct ds1 as [|c ds2].
  { unfold be_val in *. cbn [be_val_acc len length N.of_nat] in *. subst n.
    replace (0 * 256 + a <? 128) with false by lia. replace (0 * 256 + a <? 256) with true by lia.
    list_eq. }
  apply octets_ok_cons in Hok1 as [Hc Hok2]. rewrite !len_cons in *.
  destruct ds2 as [|e ds3].
  { unfold be_val in *. cbn [be_val_acc len length N.of_nat] in *. subst n.
    set (v := (0 * 256 + a) * 256 + c) in *.
    replace (v <? 128) with false by lia. replace (v <? 256) with false by lia. replace (v <? 65536) with true by lia.
    list_eq. }
  apply octets_ok_cons in Hok2 as [He Hok3]. rewrite !len_cons in *.
  destruct ds3 as [|g ds4].
  { unfold be_val in *. cbn [be_val_acc len length N.of_nat] in *. subst n.
    set (v := ((0 * 256 + a) * 256 + c) * 256 + e) in *.
    replace (v <? 128) with false by lia. replace (v <? 256) with false by lia. replace (v <? 65536) with false by lia.
    replace (v <? 16777216) with true by lia.
    list_eq. }
  apply octets_ok_cons in Hok3 as [Hg Hok4]. rewrite !len_cons in *.
  destruct ds4 as [|h ds5]; [|rewrite len_cons in Hl; lia].
  unfold be_val in *. cbn [be_val_acc len length N.of_nat] in *. subst n.
  set (v := (((0 * 256 + a) * 256 + c) * 256 + e) * 256 + g) in *.
  replace (v <? 128) with false by lia. replace (v <? 256) with false by lia. replace (v <? 65536) with false by lia.
  replace (v <? 16777216) with false by lia. replace (v <? 4294967296) with true by lia.
  list_eq.
Qed.

Lemma lenoct_strict_is_written m n lw : m <> Ber -> lenoct m n lw -> length_write n = Ok lw.
Proof.
  intros Hm H. specialize (H []). rewrite app_nil_r in H. unfold length_read_spec in H.
  destruct lw as [|b0 r]; [discriminate|].
  destruct (b0 <? 128) eqn:E0.
  { injection H as Hn Hr. subst n r. rewrite length_write_cases, E0. reflexivity. }
  destruct (b0 =? 128) eqn:E128; [discriminate|]. destruct (4 <? b0 - 128) eqn:E4; [discriminate|].
  destruct (len r <? b0 - 128) eqn:El; [discriminate|].
  replace (is_ber m) with false in H by (destruct m; try reflexivity; congruence). cbn [orb] in H.
  destruct (min_len_ok (b0 :: firstN (b0 - 128) r)) eqn:Emin; [|discriminate].
  injection H as <- Hs.
  assert (Hk : len r = b0 - 128) by (apply (f_equal (@len N)) in Hs; rewrite len_skipN in Hs; cbn in Hs; lia).
  assert (Hf : firstN (b0 - 128) r = r) by (rewrite <- Hk; unfold firstN, len; rewrite Nnat.Nat2N.id; apply firstn_all).
  rewrite Hf in *. apply min_form_unique; [exact Emin| |rewrite len_cons; lia].
  unfold len_value. destruct r as [|a r']; [|reflexivity]. change (len (@nil N)) with 0 in Hk. lia.
Qed.

Theorem der_encoding_unique :
  (forall t d, GrammarP.enc Der t d -> forall d', GrammarP.enc Der t d' -> d = d') /\
  (forall ts ds, encs Der ts ds -> forall ds', encs Der ts ds' -> ds = ds').
Proof.
  apply enc_encs_ind.
  - intros t c lw _ _ Hlw d' H'. inversion H' as [t0 c0 lw' _ _ Hlw'| |]; subst.
    apply lenoct_strict_is_written in Hlw; [|discriminate]. apply lenoct_strict_is_written in Hlw'; [|discriminate].
    congruence.
  - intros t kids lw body _ _ _ Hlw Hk IH d' H'. inversion H' as [|t0 k0 lw' body' _ _ _ Hlw' Hk'|t0 k0 body' lw0 _ _ Hd]; subst.
    + specialize (IH _ Hk'). subst body'.
      apply lenoct_strict_is_written in Hlw; [|discriminate]. apply lenoct_strict_is_written in Hlw'; [|discriminate].
      congruence.
    + congruence.
  - intros t kids body lw0 _ _ Hd. congruence.
  - intros ds' H'. inversion H'. reflexivity.
  - intros t ts d ds _ IH1 _ IH2 ds' H'. inversion H' as [|t0 ts0 d0 ds0 Ht Hts]; subst.
    rewrite (IH1 _ Ht), (IH2 _ Hts). reflexivity.
Qed.

(* C05 at the level of structure: two octet strings that the DER reader maps
   to equal trees are the same octet string; and re-encoding what was read
   (with the model's encoders) gives back the input *)
Theorem der_reader_injective d1 d2 ts f1 f2 :
  octets_ok d1 = true -> octets_ok d2 = true -> (length d1 < f1)%nat -> (length d2 < f2)%nat ->
  fst (decode_src Der (read_all f1) (pure_src d1 None)) = Ok ts ->
  fst (decode_src Der (read_all f2) (pure_src d2 None)) = Ok ts -> d1 = d2.
Proof.
  intros O1 O2 F1 F2 H1 H2.
  apply (reader_accepts_exactly_the_grammar Der d1 ts f1 O1 F1) in H1.
  apply (reader_accepts_exactly_the_grammar Der d2 ts f2 O2 F2) in H2.
  apply (proj2 der_encoding_unique ts d1 H1 d2 H2).
Qed.

Theorem der_reencode_is_identity e d0 d f :
  structural e -> octets_ok d0 = true -> (length d0 < f)%nat ->
  fst (decode_src Der (read_all f) (pure_src d0 None)) = Ok (tlvs_of e) ->
  enc_write Der e = Ok d -> d = d0.
Proof.
  intros Hs O F Hr Hw.
  apply (reader_accepts_exactly_the_grammar Der d0 _ f O F) in Hr.
  pose proof (encoder_in_grammar e Der d Hs Hw) as He.
  apply (proj2 der_encoding_unique _ d He d0 Hr).
Qed.
