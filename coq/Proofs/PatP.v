(* C07: the composite decoding routines ARE trees of access patterns. `PatM m` says the Level-B routine m
   is the Level-B reading of some tree p of the access patterns of Model/Source.v (each of which is proved in
   SourceP to refine its specification for every grant policy). The trees are closed under sequencing
   (pbind), so the header processing of Constructed::process_next_value, every typed leaf accessor and any
   composition of them is such a tree; runA_refines then makes each of them independent of how the source
   delivers its octets, and free of access to ungranted octets. *)
From Coq Require Import Lia ZifyBool ZifyN.
Require Import BV.Model.Base BV.Model.SrcB BV.Model.Length BV.Model.Tag BV.Model.Source BV.Model.Twos
               BV.Model.Int BV.Model.BitStr BV.Model.Oid BV.Model.Content.
Require Import BV.Proofs.Bits BV.Proofs.SrcBP BV.Proofs.WinP BV.Proofs.SourceP.
Arguments N.add : simpl never. Arguments N.sub : simpl never.
Arguments N.ltb : simpl never. Arguments N.leb : simpl never. Arguments N.eqb : simpl never.
Arguments N.min : simpl never. Arguments N.max : simpl never.

(* sequencing of trees *)
Fixpoint pbind {T U} (p : pat T) (f : T -> pat U) : pat U :=
  match p with
  | PRet t => f t
  | PErr => PErr
  | PTakeU8 k => PTakeU8 (fun b => pbind (k b) f)
  | PTakeOpt k => PTakeOpt (fun b => pbind (k b) f)
  | PSkipN n k => PSkipN n (pbind k f)
  | PTakeAll k => PTakeAll (fun b => pbind (k b) f)
  | PPeek i k => PPeek i (fun b => pbind (k b) f)
  | PSetLim l k => PSetLim l (pbind k f)
  | PGetLim k => PGetLim (fun l => pbind (k l) f)
  | PRes x => match x with Ok t => f t | CErr => PRes CErr | SErr => PRes SErr
                         | Panic => PRes Panic | NoFuel => PRes NoFuel end
  | PTagIf e k => PTagIf e (fun o => pbind (k o) f)
  | PExhausted k => PExhausted (pbind k f)
  | PLook n k => PLook n (fun l => pbind (k l) f)
  | PSliceThen adv k => PSliceThen adv (fun c => pbind (k c) f)
  end.

Lemma bind_assoc' {A B C} (m : M A) (f : A -> M B) (g : B -> M C) s :
  bind (bind m f) g s = bind m (fun a => bind (f a) g) s.
Proof. unfold bind. destruct (m s) as [[] ?]; reflexivity. Qed.

Lemma runB_pbind {T U} (p : pat T) (f : T -> pat U) : forall s,
  runB (pbind p f) s = bind (runB p) (fun t => runB (f t)) s.
Proof.
  induction p as [t| |k IH|k IH|n k IH|k IH|i k IH|l k IH|k IH|x|e k IH|k IH|n k IH|adv k IH];
    intro s; cbn [pbind runB]; try reflexivity;
    try (rewrite bind_assoc'; apply bind_ext; intros; apply IH).
  - rewrite bind_assoc'. apply bind_ext. intros. rewrite bind_assoc'. apply bind_ext. intros. apply IH.
  - destruct x; reflexivity.
Qed.

Definition PatM {T} (m : M T) : Type := { p : pat T | forall s, m s = runB p s }.

Lemma PatM_ext {T} (m m' : M T) : (forall s, m s = m' s) -> PatM m -> PatM m'.
Proof. intros E [p Hp]. exists p. intro s. rewrite <- E. apply Hp. Qed.

Lemma PatM_res {T} (x : res T) : PatM (fun s => (x, s)).
Proof. exists (PRes x). reflexivity. Qed.
Lemma PatM_ret {T} (t : T) : PatM (ret t).
Proof. exists (PRet t). reflexivity. Qed.
Lemma PatM_cerr {T} : PatM (@cerr T).
Proof. exists PErr. reflexivity. Qed.
Lemma PatM_panic {T} : PatM (@panic T).
Proof. exact (PatM_res Panic). Qed.
Lemma PatM_nofuel {T} : PatM (@nofuel T).
Proof. exact (PatM_res NoFuel). Qed.

Lemma PatM_bind {T U} (m : M T) (f : T -> M U) : PatM m -> (forall t, PatM (f t)) -> PatM (bind m f).
Proof.
  intros [p Hp] Hf. exists (pbind p (fun t => proj1_sig (Hf t))). intro s.
  rewrite runB_pbind. unfold bind. rewrite Hp. destruct (runB p s) as [[t| | | |] s']; try reflexivity.
  apply (proj2_sig (Hf t)).
Qed.

(* the access patterns themselves *)
Lemma PatM_take_u8 : PatM take_u8.
Proof. exists (PTakeU8 (fun b => PRet b)). intro s. cbn [runB]. unfold bind. destruct (take_u8 s) as [[] ?]; reflexivity. Qed.
Lemma PatM_take_opt_u8 : PatM take_opt_u8.
Proof. exists (PTakeOpt (fun b => PRet b)). intro s. cbn [runB]. unfold bind. destruct (take_opt_u8 s) as [[] ?]; reflexivity. Qed.
Lemma PatM_skip_n n : PatM (need n ;;; advance n).
Proof.
  exists (PSkipN n (PRet tt)). intro s. cbn [runB]. unfold bind.
  destruct (need n s) as [[[]| | | |] s1]; try reflexivity. destruct (advance n s1) as [[[]| | | |] ?]; reflexivity.
Qed.
Lemma PatM_take_all : PatM take_all_lim.
Proof. exists (PTakeAll (fun b => PRet b)). intro s. cbn [runB]. unfold bind. destruct (take_all_lim s) as [[] ?]; reflexivity. Qed.
Lemma PatM_peek i : PatM (peek_B i).
Proof. exists (PPeek i (fun b => PRet b)). intro s. cbn [runB]. unfold bind. destruct (peek_B i s) as [[] ?]; reflexivity. Qed.
Lemma PatM_set_limit l : PatM (set_limit l).
Proof. exists (PSetLim l (PRet tt)). intro s. reflexivity. Qed.
Lemma PatM_get_lim : PatM get_lim.
Proof. exists (PGetLim (fun l => PRet l)). intro s. reflexivity. Qed.
Lemma PatM_tag_if e : PatM (tag_take_from_if e).
Proof. exists (PTagIf e (fun o => PRet o)). intro s. cbn [runB]. unfold bind. destruct (tag_take_from_if e s) as [[] ?]; reflexivity. Qed.
Lemma PatM_src_exhausted : PatM src_exhausted.
Proof. exists (PExhausted (PRet tt)). intro s. cbn [runB]. unfold bind. destruct (src_exhausted s) as [[[]| | | |] ?]; reflexivity. Qed.
Lemma PatM_look n : PatM (look_B n).
Proof. exists (PLook n (fun l => PRet l)). intro s. cbn [runB]. unfold bind. destruct (look_B n s) as [[] ?]; reflexivity. Qed.
Lemma PatM_slice_then adv : PatM (slice_then_B adv).
Proof. exists (PSliceThen adv (fun l => PRet l)). intro s. cbn [runB]. unfold bind. destruct (slice_then_B adv s) as [[] ?]; reflexivity. Qed.
Lemma PatM_length m : PatM (length_take_from m).
Proof. exists (length_pat m). apply length_is_pat. Qed.
Lemma PatM_tag_opt : PatM tag_take_opt_from.
Proof. exists tag_opt_pat. apply tag_opt_is_pat. Qed.
Lemma PatM_tag : PatM tag_take_from.
Proof. unfold tag_take_from. apply PatM_bind; [apply PatM_tag_opt|]. intros [r|]; [apply PatM_ret|apply PatM_cerr]. Qed.

Ltac patm :=
  repeat first
    [ apply PatM_ret | apply PatM_cerr | apply PatM_panic | apply PatM_nofuel
    | apply PatM_take_u8 | apply PatM_take_opt_u8 | apply PatM_take_all | apply PatM_peek
    | apply PatM_set_limit | apply PatM_get_lim | apply PatM_tag_if | apply PatM_src_exhausted
    | apply PatM_look | apply PatM_slice_then | apply PatM_length | apply PatM_tag_opt | apply PatM_tag
    | apply PatM_skip_n
    | apply PatM_bind; [|intros]
    | match goal with |- PatM (if ?c then _ else _) => destruct c end
    | match goal with |- PatM (match ?o with Some _ => _ | None => _ end) => destruct o end
    | match goal with |- PatM (let '(_, _) := ?x in _) => destruct x end ].

(* ---- derived source routines ---- *)
Lemma PatM_remaining : PatM remaining.
Proof.
  apply (PatM_ext (l <- get_lim ;; match l with Some n => ret n | None => panic end)).
  - intro s. unfold remaining, bind, get_lim. destruct (lim s); reflexivity.
  - patm.
Qed.
Lemma PatM_skip_all_lim : PatM skip_all_lim.
Proof.
  apply (PatM_ext (l <- get_lim ;; match l with Some n => need n ;;; advance n | None => panic end)).
  - intro s. unfold skip_all_lim, bind at 1, get_lim. destruct (lim s); reflexivity.
  - patm.
Qed.
Lemma PatM_slice_all : PatM slice_all_lim.
Proof.
  apply (PatM_ext (slice_then_B (fun _ => false))).
  - intro s. unfold slice_then_B, bind. destruct (slice_all_lim s) as [[] ?]; reflexivity.
  - patm.
Qed.
Definition res_ok {T} (x : res T) : bool := match x with Ok _ => true | _ => false end.
Lemma PatM_with_slice_all {T} (op : list N -> res T) : PatM (with_slice_all op).
Proof.
  apply (PatM_ext (c <- slice_then_B (fun c => res_ok (op c)) ;; fun s => (op c, s))).
  - intro s. unfold with_slice_all, slice_then_B. rewrite bind_assoc'. apply bind_ext. intros c s1.
    destruct (op c) eqn:E; cbn [res_ok]; unfold bind, ret; rewrite ?E; try reflexivity.
    destruct (advance (len c) s1) as [[[]| | | |] ?]; rewrite ?E; reflexivity.
  - apply PatM_bind; [apply PatM_slice_then|]. intro c. apply PatM_res.
Qed.

(* ---- the typed leaf accessors ---- *)
Lemma firstN2_0 {T} : firstN 2 (@nil T) = []. Proof. reflexivity. Qed.
Lemma firstN2_1 {T} (a : T) : firstN 2 [a] = [a]. Proof. reflexivity. Qed.
Lemma firstN2_2 {T} (a b : T) l : firstN 2 (a :: b :: l) = [a; b]. Proof. reflexivity. Qed.

Lemma PatM_int_check_head : PatM int_check_head.
Proof.
  apply (PatM_ext (l <- look_B 2 ;; match l with
           | [] => cerr | [_] => ret tt
           | b0 :: b1 :: _ => if ((b0 =? 0) && negb (bit8 b1)) || ((b0 =? 255) && bit8 b1) then cerr else ret tt end)).
  - intro s. unfold int_check_head, look_B. rewrite bind_assoc'. apply bind_ext. intros [] s1.
    unfold bind. destruct (visible s1) as [|b0 [|b1 v]]; rewrite ?firstN2_0, ?firstN2_1, ?firstN2_2; try reflexivity.
    destruct (((b0 =? 0) && negb (bit8 b1)) || ((b0 =? 255) && bit8 b1)); reflexivity.
  - apply PatM_bind; [apply PatM_look|]. intros [|b0 [|b1 v]]; patm.
Qed.
Lemma PatM_uns_check_head : PatM uns_check_head.
Proof.
  apply (PatM_ext (l <- look_B 2 ;; match l with
           | [] => cerr | [b0] => if bit8 b0 then cerr else ret tt
           | b0 :: b1 :: _ => if ((b0 =? 0) && negb (bit8 b1)) || ((b0 =? 255) && bit8 b1) then cerr else
                              if bit8 b0 then cerr else ret tt end)).
  - intro s. unfold uns_check_head, int_check_head, look_B. rewrite !bind_assoc'. apply bind_ext. intros [] s1.
    unfold bind. destruct (visible s1) as [|b0 [|b1 v]] eqn:Ev; rewrite ?firstN2_0, ?firstN2_1, ?firstN2_2; try reflexivity.
    + rewrite Ev. destruct (bit8 b0); reflexivity.
    + destruct (((b0 =? 0) && negb (bit8 b1)) || ((b0 =? 255) && bit8 b1)); [reflexivity|].
      rewrite Ev. destruct (bit8 b0); reflexivity.
  - apply PatM_bind; [apply PatM_look|]. intros [|b0 [|b1 v]]; patm.
Qed.

Ltac patm2 :=
  repeat first
    [ apply PatM_remaining | apply PatM_skip_all_lim | apply PatM_slice_all | apply PatM_with_slice_all
    | apply PatM_int_check_head | apply PatM_uns_check_head
    | apply PatM_ret | apply PatM_cerr | apply PatM_panic | apply PatM_nofuel
    | apply PatM_take_u8 | apply PatM_take_opt_u8 | apply PatM_take_all | apply PatM_peek
    | apply PatM_set_limit | apply PatM_get_lim | apply PatM_tag_if | apply PatM_src_exhausted
    | apply PatM_look | apply PatM_slice_then | apply PatM_length | apply PatM_tag_opt | apply PatM_tag
    | apply PatM_skip_n
    | apply PatM_bind; [|intros]
    | match goal with |- PatM (if ?c then _ else _) => destruct c end
    | match goal with |- PatM (match ?o with Some _ => _ | None => _ end) => destruct o end
    | match goal with |- PatM (let '(_, _) := ?x in _) => destruct x end ].

Lemma PatM_int_accessor ty : PatM (int_accessor ty).
Proof.
  unfold int_accessor, i8_from_primitive, signed_from_primitive, u8_from_primitive, u16_from_primitive,
    unsigned_from_primitive.
  destruct ty as [|[[[[|[]|]|[]|]|[[]|[]|]|]|[[]|[[]|[]|]|]|]]; patm2.
Qed.
Lemma PatM_to_bool m : PatM (to_bool m).
Proof. unfold to_bool. patm2. Qed.
Lemma PatM_to_null : PatM to_null.
Proof. unfold to_null. patm2. Qed.
Lemma PatM_integer_from_primitive : PatM integer_from_primitive.
Proof. unfold integer_from_primitive. apply PatM_bind; [patm|]. intros [|b0 [|b1 v]]; patm. Qed.
Lemma PatM_unsigned_int_from_primitive : PatM unsigned_int_from_primitive.
Proof. unfold unsigned_int_from_primitive. apply PatM_bind; [patm2|]. intro. apply PatM_integer_from_primitive. Qed.
Lemma PatM_oid_from_prim : PatM oid_from_prim.
Proof. unfold oid_from_prim. apply PatM_bind; [patm|]. intro c. destruct (oid_check_content c); patm. Qed.
Lemma PatM_oid_skip_prim : PatM oid_skip_prim.
Proof. unfold oid_skip_prim. patm2. Qed.
Lemma PatM_oid_skip_if self : PatM (oid_skip_if self).
Proof. unfold oid_skip_if. patm2. Qed.
Lemma PatM_bit_from_prim m : PatM (bit_from_prim m).
Proof. unfold bit_from_prim. patm2. Qed.
Lemma PatM_bit_skip_prim m : PatM (bit_skip_prim m).
Proof. unfold bit_skip_prim. patm2. Qed.

(* ---- Constructed: exhausted, is_exhausted, process_next_value, mandatory ---- *)
Lemma PatM_cons_exhausted c : PatM (cons_exhausted c).
Proof. unfold cons_exhausted. destruct (cst c); patm2. Qed.
Lemma PatM_content_exhausted ct : PatM (content_exhausted ct).
Proof. destruct ct; cbn [content_exhausted]; [patm2|apply PatM_cons_exhausted]. Qed.
Lemma PatM_is_exhausted c : PatM (is_exhausted c).
Proof. unfold is_exhausted. destruct (cst c); patm2. Qed.

Theorem PatM_process_next_value {T} c expected (op : tag -> content -> M (T * content)) :
  (forall t ct, PatM (op t ct)) -> PatM (process_next_value c expected op).
Proof.
  intro Hop. unfold process_next_value.
  apply PatM_bind; [apply PatM_is_exhausted|]. intros [|]; [patm2|].
  apply PatM_bind.
  { destruct expected as [e|]; [patm2|]. destruct (cstate_eqb (cst c) Unbounded); patm2. }
  intros [[t k]|]; [|patm2].
  apply PatM_bind; [patm2|]. intro l.
  destruct (tag_eqb t END_OF_VALUE).
  { destruct (cst c); patm2. }
  destruct l as [n|].
  - apply PatM_bind; [patm2|]. intro old.
    apply PatM_bind; [destruct old; patm2|]. intros _.
    apply PatM_bind; [patm2|]. intros _.
    apply PatM_bind; [patm2|]. intros _.
    apply PatM_bind; [apply Hop|]. intros [r ct'].
    apply PatM_bind; [apply PatM_content_exhausted|]. intros _. patm2.
  - destruct (negb k || mode_eqb (cmd c) Der); [patm2|].
    apply PatM_bind; [apply Hop|]. intros [r ct'].
    apply PatM_bind; [apply PatM_content_exhausted|]. intros _. patm2.
Qed.

Lemma PatM_mandatory {T} (m : M (option T * cons)) : PatM m -> PatM (mandatory m).
Proof. intro H. unfold mandatory. apply PatM_bind; [exact H|]. intros [[v|] c]; patm2. Qed.
Lemma PatM_as_prim {T} (f : mode -> M (T * mode)) t ct : (forall m, PatM (f m)) -> PatM (as_prim f t ct).
Proof. intro H. unfold as_prim. destruct ct; [|patm2]. apply PatM_bind; [apply H|]. intros [v m']. patm2. Qed.
Lemma PatM_as_cons {T} (f : cons -> M (T * cons)) t ct : (forall c, PatM (f c)) -> PatM (as_cons f t ct).
Proof. intro H. unfold as_cons. destruct ct; [patm2|]. apply PatM_bind; [apply H|]. intros [v m']. patm2. Qed.

(* ---- skipping and the generic reader (loops on explicit fuel) ---- *)
Lemma PatM_skip_unwind fuel : forall st, PatM (skip_unwind fuel st).
Proof.
  induction fuel as [|f IH]; intro st; cbn [skip_unwind]; [patm2|].
  destruct st as [|top st']; [patm2|].
  apply PatM_bind; [patm2|]. intros [[|p]|]; patm2. apply IH.
Qed.

Lemma PatM_skip_loop_after fuel : forall c flt_ st tr,
  (PatM (skip_loop fuel c flt_ st tr) * PatM (skip_after fuel c flt_ st tr))%type.
Proof.
  induction fuel as [|f IH]; intros c flt_ st tr.
  { split; [cbn [skip_loop]|cbn [skip_after]]; patm2. }
  split; [cbn [skip_loop]|cbn [skip_after]].
  - apply PatM_bind.
    { destruct (match st with [] => cstate_eqb (cst c) Unbounded | _ => false end); patm2. }
    intros [[t k]|]; [|patm2].
    apply PatM_bind; [patm2|]. intro l.
    destruct (negb k).
    + destruct (tag_eqb t END_OF_VALUE).
      * destruct (negb (length_is_zero l)); [patm2|].
        destruct st as [|[x|] st']; [destruct (cst c); patm2|patm2|apply IH].
      * destruct l as [n|]; [|patm2]. destruct (negb (flt_ t k (len st))); [patm2|].
        apply (PatM_ext (bind (need n ;;; advance n) (fun _ => skip_after f c flt_ st (tr ++ [(t, k, len st)])))).
        { intro s. rewrite bind_assoc'. reflexivity. }
        apply PatM_bind; [patm2|]. intros _. apply IH.
    + destruct (tag_eqb t END_OF_VALUE); [patm2|].
      destruct l as [n|].
      * destruct (mode_eqb (cmd c) Cer); [patm2|]. destruct (negb (flt_ t k (len st))); [patm2|].
        apply PatM_bind; [patm2|]. intros [li|].
        -- destruct (li <? n); [patm2|]. apply PatM_bind; [patm2|]. intros _. apply IH.
        -- apply PatM_bind; [patm2|]. intros _. apply IH.
      * destruct (mode_eqb (cmd c) Der); [patm2|]. destruct (negb (flt_ t k (len st))); [patm2|]. apply IH.
  - apply PatM_bind; [apply PatM_skip_unwind|]. intros [st'|]; [apply IH|patm2].
Qed.

Lemma PatM_skip_opt fuel c flt_ : PatM (skip_opt fuel c flt_).
Proof.
  unfold skip_opt. apply PatM_bind; [apply PatM_is_exhausted|]. intros [|]; [patm2|apply PatM_skip_loop_after].
Qed.
Lemma PatM_skip_one fuel c : PatM (skip_one fuel c).
Proof. unfold skip_one. apply PatM_bind; [apply PatM_skip_opt|]. intros [[o c'] tr]. patm2. Qed.
Lemma PatM_skip_mand fuel c flt_ : PatM (skip_mand fuel c flt_).
Proof. unfold skip_mand. apply PatM_bind; [apply PatM_skip_opt|]. intros [[[|] c'] tr]; patm2. Qed.
Lemma PatM_skip_all fuel : forall c n, PatM (skip_all fuel c n).
Proof.
  induction fuel as [|f IH]; intros c n; cbn [skip_all]; [patm2|].
  apply PatM_bind; [apply PatM_skip_one|]. intros [[|] c']; [patm2|apply IH].
Qed.

Lemma PatM_read_all fuel : forall c, PatM (read_all fuel c).
Proof.
  induction fuel as [|f IH]; intro c; cbn [read_all]; [patm2|].
  apply PatM_bind.
  - apply PatM_process_next_value. intros t [m|c']; [patm2|].
    apply PatM_bind; [apply IH|]. intros [kids c'']. patm2.
  - intros [[v|] c']; [|patm2]. apply PatM_bind; [apply IH|]. intros [vs c'']. patm2.
Qed.

Lemma PatM_decode_src {T} m (op : cons -> M (T * cons)) : (forall c, PatM (op c)) -> PatM (decode_src m op).
Proof.
  intro H. unfold decode_src. apply PatM_bind; [apply H|]. intros [r c].
  apply PatM_bind; [apply PatM_cons_exhausted|]. intros _. patm2.
Qed.

(* ---- every decoding program of the language of Model/Prog.v that neither captures nor runs a raw
        Source script (those have their own Level-A treatment under C11 and C03) ---- *)
Require Import BV.Model.Prog.

Lemma PatM_typed_prim ty m : PatM (typed_prim ty m).
Proof.
  unfold typed_prim. destruct ty as [|p].
  2: repeat match goal with
     | |- context [match ?q with xH => _ | xO _ => _ | xI _ => _ end] => is_var q; destruct q
     end.
  all: (apply PatM_bind; [first [apply PatM_to_bool|apply PatM_to_null|apply PatM_oid_from_prim|apply PatM_oid_skip_prim
      |apply PatM_bit_from_prim|apply PatM_bit_skip_prim|apply PatM_integer_from_primitive
      |apply PatM_unsigned_int_from_primitive|apply PatM_int_accessor]|]; intros; patm2).
Qed.

Fixpoint plain_p (p : prog) : bool :=
  match p with
  | PTake _ _ _ b => plain_b b
  | PSkip _ _ _ _ | PReadAll | PSetMode _ => true
  | PCapture _ | PCaptureOne | PCaptureAll => false
  end
with plain_b (b : body) : bool :=
  match b with
  | BGeneric | BNop | BTyped _ => true
  | BProg ps => forallb plain_p ps
  | BScript _ => false
  | BSetModeThen _ b' => plain_b b'
  end.

Theorem PatM_exec fuel :
  (forall ps c lg, forallb plain_p ps = true -> PatM (exec fuel ps c lg)) *
  (forall b ct, plain_b b = true -> PatM (exec_body fuel b ct)).
Proof.
  induction fuel as [|f [IHe IHb]]; (split; [intros ps c lg Hp; cbn [exec]|intros b ct Hp; cbn [exec_body]]); try patm2.
  - destruct ps as [|p rest]; [patm2|]. cbn [forallb] in Hp. apply andb_prop in Hp. destruct Hp as [Hp Hrest].
    apply PatM_bind; [|intros [lg' c']; apply IHe; exact Hrest].
    destruct p as [opt kind exp b|variant fk fa fb|qs| | | |m]; cbn [plain_p] in Hp; try discriminate Hp.
    + apply PatM_bind.
      * apply PatM_process_next_value. intros t ct.
        assert (Hb : PatM (r <- exec_body f b ct;; (let '(l, ct') := r in
                     ret (ltag t match ct with CPrim _ => false | CCons _ => true end ++ l, ct')))).
        { apply PatM_bind; [apply IHb; exact Hp|]. intros [l ct']. patm2. }
        destruct kind as [|[[]|[]|]]; destruct ct; first [exact Hb | patm2].
      * intros [[l|] c']; [patm2|]. destruct opt; patm2.
    + destruct variant as [|[[]|[]|]];
        first [ apply PatM_bind; [apply PatM_skip_opt|]; intros [[o c'] tr]; patm2
              | apply PatM_bind; [apply PatM_skip_mand|]; intros [c' tr]; patm2
              | apply PatM_bind; [apply PatM_skip_one|]; intros [o c']; patm2
              | apply PatM_bind; [apply PatM_skip_all|]; intros [n c']; patm2 ].
    + apply PatM_bind; [apply PatM_read_all|]. intros [ts c']. patm2.
    + patm2.
  - destruct b as [|ps|sc| |ty|m b']; cbn [plain_b] in Hp; try discriminate Hp; destruct ct as [m0|c0].
    + apply PatM_bind; [patm2|]. intro. patm2.
    + apply PatM_bind; [apply PatM_read_all|]. intros [ts c']. patm2.
    + patm2.
    + apply PatM_bind; [apply IHe; exact Hp|]. intros [l c']. patm2.
    + patm2.
    + patm2.
    + apply PatM_bind; [apply PatM_typed_prim|]. intro. patm2.
    + patm2.
    + apply IHb; exact Hp.
    + apply IHb; exact Hp.
Qed.

(* ---- Unsigned::check_head looks at slice() a second time without a new request: the grant of the
        request(2) inside Integer::check_head is still there ---- *)
Lemma skipN0 {T} (l : list T) : skipN 0 l = l. Proof. reflexivity. Qed.

Theorem uns_head_refines pol r : raw_ok r -> Ref (uns_check_head_A pol r) (uns_check_head (absA r)).
Proof.
  intro Hok. pose proof (look_refines pol 2 r Hok) as (H1 & H2 & H3).
  destruct (requestA_spec pol 2 r Hok) as (g & r1 & Hr & _).
  unfold look_A, bindA in H1, H2, H3. rewrite Hr in H1, H2, H3. cbn [fst snd] in H1, H2, H3.
  unfold look_B, bind in H1, H2. rewrite tick_A in H1, H2. cbn [fst snd] in H1, H2.
  injection H1 as H1.
  unfold uns_check_head_A, int_check_head_A, look_A, bindA. rewrite Hr.
  unfold uns_check_head, int_check_head, bind. rewrite tick_A. unfold indexA, bit8.
  destruct (sliceA r1) as [|a [|b t]] eqn:Es, (visible (absA r)) as [|a' [|b' t']] eqn:Ev;
    rewrite ?firstN2_0, ?firstN2_1, ?firstN2_2 in H1; try discriminate H1;
    rewrite ?firstN2_0, ?firstN2_1, ?firstN2_2.
  - unfold Ref, cerrA. cbn [fst snd]. auto.
  - injection H1 as ->. unfold retA at 1. cbv beta iota. rewrite Es, Ev, skipN0.
    destruct (negb (N.land a' 128 =? 0)); unfold Ref, cerrA, retA; cbn [fst snd]; auto.
  - injection H1 as -> ->. rewrite Bool.negb_involutive.
    destruct ((a' =? 0) && (N.land b' 128 =? 0) || (a' =? 255) && negb (N.land b' 128 =? 0)).
    + unfold Ref, cerrA. cbn [fst snd]. auto.
    + unfold retA at 1. cbv beta iota. rewrite Es, Ev, skipN0.
      destruct (negb (N.land a' 128 =? 0)); unfold Ref, cerrA, retA; cbn [fst snd]; auto.
Qed.

(* the model does notice the look before the request (the order Unsigned::check_head must not use) *)
Lemma uns_head_look_first_panics : fst (indexA 0 (mkRaw [128] 0 (Some 1) 0)) = Panic.
Proof. reflexivity. Qed.

(* ---- what being a tree buys: independence of the delivery, no ungranted access ---- *)
Definition delivery_free {T} (m : M T) : Prop :=
  exists p : pat T,
    (forall s, m s = runB p s) /\
    (forall pol r, raw_ok r -> Ref (runA pol p r) (m (absA r))) /\
    (forall pol1 pol2 r1 r2, raw_ok r1 -> raw_ok r2 -> absA r1 = absA r2 ->
       fst (runA pol1 p r1) = fst (runA pol2 p r2) /\
       absA (snd (runA pol1 p r1)) = absA (snd (runA pol2 p r2))) /\
    (forall pol r, raw_ok r -> fst (runA pol p r) = Panic -> fst (m (absA r)) = Panic).

Theorem PatM_delivery_free {T} (m : M T) : PatM m -> delivery_free m.
Proof.
  intros [p Hp]. exists p. split; [exact Hp|]. split; [|split].
  - intros pol r Hok. rewrite Hp. apply runA_refines, Hok.
  - intros. apply delivery_independent; assumption.
  - intros pol r Hok HP. rewrite Hp. apply (no_ungranted_access pol p r Hok HP).
Qed.

(* Constructed::process_next_value around any closure that is itself delivery-free by construction *)
Theorem pnv_delivery_free {T} c expected (op : tag -> content -> M (T * content)) :
  (forall t ct, PatM (op t ct)) -> delivery_free (process_next_value c expected op).
Proof. intro H. apply PatM_delivery_free, PatM_process_next_value, H. Qed.

(* the typed readers: take_{primitive,opt_primitive}_if tag around each leaf accessor *)
Definition leaf_reader (ty : N) (c : cons) (e : option tag) : M (option log * cons) :=
  process_next_value c e (as_prim (fun m => l <- typed_prim ty m ;; ret (l, m))).
Theorem typed_readers_delivery_free ty c e :
  delivery_free (leaf_reader ty c e) /\ delivery_free (mandatory (leaf_reader ty c e)).
Proof.
  assert (H : PatM (leaf_reader ty c e)).
  { unfold leaf_reader. apply PatM_process_next_value. intros t ct. apply PatM_as_prim. intro m.
    apply PatM_bind; [apply PatM_typed_prim|]. intro. patm2. }
  split; apply PatM_delivery_free; [exact H|apply PatM_mandatory, H].
Qed.

(* skipping and the generic reader *)
Theorem skip_read_delivery_free fuel c flt_ n :
  delivery_free (skip_opt fuel c flt_) /\ delivery_free (skip_mand fuel c flt_) /\
  delivery_free (skip_one fuel c) /\ delivery_free (skip_all fuel c n) /\ delivery_free (read_all fuel c).
Proof.
  repeat split; apply PatM_delivery_free;
    [apply PatM_skip_opt|apply PatM_skip_mand|apply PatM_skip_one|apply PatM_skip_all|apply PatM_read_all].
Qed.

(* every program of the language of Model/Prog.v without capture and raw scripts, from decode to the final
   end-of-input check *)
Theorem plain_programs_delivery_free fuel ps c lg : forallb plain_p ps = true ->
  delivery_free (exec fuel ps c lg).
Proof. intro H. apply PatM_delivery_free. apply (fst (PatM_exec fuel)), H. Qed.
Theorem plain_decode_delivery_free fuel ps m : forallb plain_p ps = true ->
  delivery_free (decode_src m (fun c => exec fuel ps c [])).
Proof.
  intro H. apply PatM_delivery_free, PatM_decode_src. intro c. apply (fst (PatM_exec fuel)), H.
Qed.

(* non-vacuity: SEQUENCE { INTEGER 5, BOOLEAN true } read by a typed program under a miserly policy *)
Definition ex_prog : list prog :=
  [PTake false 2 (Some (0, 16)) (BProg [PTake false 1 (Some (0, 2)) (BTyped 5); PTake true 1 None (BTyped 10)])].
Lemma plain_example : forallb plain_p ex_prog = true /\
  fst (decode_src Der (fun c => exec 20 ex_prog c []) (pure_src [48; 6; 2; 1; 5; 1; 1; 255] None))
  = Ok [1; 1; 48; 1; 1; 2; 5; 1; 1; 1; 1]%Z.
Proof. vm_compute. split; reflexivity. Qed.
