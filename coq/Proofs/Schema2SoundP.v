(* Soundness of the typed readers of schemas with OPTIONAL fields, DER (C05):
   what they accept is exactly the DER encoding of the value they return; an
   optional read that reports absence has touched nothing. *)
From Coq Require Import Lia ZifyBool ZifyN ZifyNat.
Require Import BV.Model.Base BV.Model.SrcB BV.Model.Length BV.Model.Tag BV.Model.Twos BV.Model.Int
               BV.Model.Content BV.Model.OctStr BV.Model.Encode BV.Model.Prog.
Require Import BV.Proofs.Bits BV.Proofs.SrcBP BV.Proofs.LengthP BV.Proofs.TagP BV.Proofs.ContentP BV.Proofs.OctGrammarP
               BV.Proofs.WinP BV.Proofs.TotalP BV.Proofs.DeltaP BV.Proofs.IntP BV.Proofs.IntEncP
               BV.Proofs.EncodeP BV.Proofs.GrammarP BV.Proofs.EncGrammarP BV.Proofs.TypedP BV.Proofs.SchemaP
               BV.Proofs.SchemaSoundP BV.Proofs.Schema2P.
Arguments N.add : simpl never. Arguments N.sub : simpl never.
Arguments N.ltb : simpl never. Arguments N.leb : simpl never. Arguments N.eqb : simpl never.
Arguments N.min : simpl never.

(* an expected-tag read that reports absence has changed nothing *)
Lemma pnv_none_if {T} c e (op : tag -> content -> M (T * content)) s c' s' :
  nf s -> tag_eqb e END_OF_VALUE = false ->
  process_next_value c (Some e) op s = (Ok (None, c'), s') -> c' = c /\ s' = s.
Proof.
  intros Hn He H. unfold process_next_value in H.
  apply bind_ok_inv in H as (ex & s0 & H0 & H).
  pose proof (is_exhausted_state _ _ _ _ H0) as ->.
  destruct ex; [injection H as <- <-; auto|].
  apply bind_ok_inv in H as (hdr & s1 & H1 & H).
  apply bind_ok_inv in H1 as (o & s1' & H1 & H1'). injection H1' as <- <-.
  destruct o as [k|].
  - exfalso. apply bind_ok_inv in H as (lv & s2 & H2 & H). rewrite He in H.
    destruct lv as [n|].
    + apply bind_ok_inv in H as (old & s3 & _ & H). apply bind_ok_inv in H as ([] & s4 & _ & H).
      apply bind_ok_inv in H as ([] & s5 & _ & H). apply bind_ok_inv in H as ([] & s6 & _ & H). cbv zeta in H.
      apply bind_ok_inv in H as ([r ct'] & s7 & _ & H). apply bind_ok_inv in H as ([] & s8 & _ & H).
      apply bind_ok_inv in H as ([] & s9 & _ & H). discriminate.
    + destruct (negb k || mode_eqb (cmd c) Der); [discriminate|].
      apply bind_ok_inv in H as ([r ct'] & s7 & _ & H). apply bind_ok_inv in H as ([] & s8 & _ & H). discriminate.
  - injection H as <- <-. split; [reflexivity|].
    destruct (tag_take_from_if_untouched_gen e s (Ok None) s1' Hn H1 ltac:(intros c0 E; discriminate E)) as [-> _]. reflexivity.
Qed.

Fixpoint kinds_ok2 (s : schema2) : Prop :=
  match s with
  | S2Leaf _ k => kind_ok k
  | S2Seq _ fs => (fix go (l : list (bool * schema2)) : Prop := match l with [] => True | (_, x) :: r => kinds_ok2 x /\ go r end) fs
  end.
Fixpoint kinds_ok2l (l : list (bool * schema2)) : Prop := match l with [] => True | (_, x) :: r => kinds_ok2 x /\ kinds_ok2l r end.
Lemma kinds_ok2_seq t fs : kinds_ok2 (S2Seq t fs) <-> kinds_ok2l fs.
Proof. cbn [kinds_ok2]. induction fs as [|[o x] r IH]; cbn [kinds_ok2l]; tauto. Qed.

Definition SD2 (s : schema2) : Prop :=
  forall fuel c src o c' src', ok2 s -> kinds_ok2 s -> nf src -> octets_ok (rem src) = true -> cmd c = Der ->
  dec2 fuel s c src = (Ok (o, c'), src') ->
  nf src' /\ c' = c /\
  match o with
  | None => src' = src
  | Some v => exists e d, enc2 s v = Some e /\ enc_write Der e = Ok d /\ rem src = d ++ rem src' /\ consumed src src' (len d)
  end.

Definition SDL2 (fs : list (bool * schema2)) : Prop :=
  forall fuel c src vs c' src', ok2l fs -> kinds_ok2l fs -> nf src -> octets_ok (rem src) = true -> cmd c = Der ->
  dec2l fuel fs c src = (Ok (vs, c'), src') ->
  nf src' /\ c' = c /\ exists es ds, enc2l fs vs = Some es /\ enc_write Der (ESeq es) = Ok ds /\
    rem src = ds ++ rem src' /\ consumed src src' (len ds).

Lemma SDL2_of_Forall fs : Forall (fun bf => SD2 (snd bf)) fs -> SDL2 fs.
Proof.
  induction 1 as [|[o s] r Hs Hr IH]; intros fuel c src vs c' src' Hok Hk Hn Ho Hm H.
  - destruct fuel as [|f]; [discriminate|]. cbn [dec2l] in H. injection H as <- <- <-.
    split; [exact Hn|]. split; [reflexivity|]. exists [], []. split; [reflexivity|]. split; [reflexivity|].
    split; [reflexivity|apply consumed_0].
  - cbn [snd] in Hs. destruct fuel as [|f]; [discriminate|]. cbn [dec2l] in H.
    destruct Hok as [Hok1 Hok2]. destruct Hk as [Hk1 Hk2].
    destruct o.
    + (* OPTIONAL *)
      apply bind_ok_inv in H as ([ov c1] & s1 & H1 & H).
      apply bind_ok_inv in H as ([vr c2] & s2 & H2 & H). injection H as <- <- <-.
      destruct (Hs f c src ov c1 s1 Hok1 Hk1 Hn Ho Hm H1) as (Hn1 & -> & Hov).
      destruct ov as [v|].
      * destruct Hov as (e & d & He & Hw & Hrem & Hc).
        assert (Ho1 : octets_ok (rem s1) = true) by (rewrite Hrem in Ho; apply octets_ok_app_r in Ho; exact Ho).
        destruct (IH f c s1 vr c2 s2 Hok2 Hk2 Hn1 Ho1 Hm H2) as (Hn2 & -> & es & ds & Hes & Hws & Hrem2 & Hc2).
        split; [exact Hn2|]. split; [reflexivity|]. exists (EOpt (Some e) :: es), (d ++ ds).
        split; [cbn [enc2l]; rewrite He, Hes; reflexivity|].
        split; [apply enc_write_seq_app; [cbn [enc_write]; exact Hw|exact Hws]|].
        split; [rewrite Hrem, Hrem2, app_assoc; reflexivity|].
        rewrite len_app. eapply consumed_trans; eassumption.
      * subst s1.
        destruct (IH f c src vr c2 s2 Hok2 Hk2 Hn Ho Hm H2) as (Hn2 & -> & es & ds & Hes & Hws & Hrem2 & Hc2).
        split; [exact Hn2|]. split; [reflexivity|]. exists (EOpt None :: es), ds.
        split; [cbn [enc2l]; rewrite Hes; reflexivity|].
        split; [apply (enc_write_seq_app Der (EOpt None) es [] ds); [reflexivity|exact Hws]|].
        split; assumption.
    + (* mandatory *)
      apply bind_ok_inv in H as ([v c1] & s1 & H1 & H).
      apply bind_ok_inv in H as ([vr c2] & s2 & H2 & H). injection H as <- <- <-.
      unfold mandatory in H1. apply bind_ok_inv in H1 as ([ov c1'] & s1' & H1 & H1').
      destruct ov as [v0|]; [|discriminate]. injection H1' as <- <- <-.
      destruct (Hs f c src (Some v0) c1' s1' Hok1 Hk1 Hn Ho Hm H1) as (Hn1 & -> & e & d & He & Hw & Hrem & Hc).
      assert (Ho1 : octets_ok (rem s1') = true) by (rewrite Hrem in Ho; apply octets_ok_app_r in Ho; exact Ho).
      destruct (IH f c s1' vr c2 s2 Hok2 Hk2 Hn1 Ho1 Hm H2) as (Hn2 & -> & es & ds & Hes & Hws & Hrem2 & Hc2).
      split; [exact Hn2|]. split; [reflexivity|]. exists (e :: es), (d ++ ds).
      split; [cbn [enc2l]; rewrite He, Hes; reflexivity|].
      split; [apply enc_write_seq_app; assumption|].
      split; [rewrite Hrem, Hrem2, app_assoc; reflexivity|].
      rewrite len_app. eapply consumed_trans; eassumption.
Qed.

Lemma SD2_leaf t k : SD2 (S2Leaf t k).
Proof.
  intros fuel c src o c1 s1 Hok Hk Hn Ho Hm H1. destruct fuel as [|f]; [discriminate|]. cbn [dec2] in H1.
  destruct Hok as [Hleg Heov]. cbn [kinds_ok2] in Hk.
  destruct o as [v0|].
  2:{ destruct (pnv_none_if c t _ src c1 s1 Hn Heov H1) as [-> ->]. auto. }
  destruct (pnv_inv_if c t _ src v0 c1 s1 Hn Ho H1) as (k0 & lw & lv & r2 & Hrem & Hspec & Hlg & Ht).
  destruct (typed_tail_sound (lop k) c t k0 lw lv r2 _ v0 c1 s1 (Win_lop k (cmd c)) (St_lop k (cmd c)) Heov Hspec Ht)
    as (-> & -> & cc & Hlo & Hr2 & Hs1 & Hl1 & Hdec).
  rewrite Hm in *.
  assert (Hocc : octets_ok cc = true).
  { rewrite Hrem, Hr2 in Ho. apply octets_ok_app_r in Ho. apply octets_ok_app_r in Ho. apply octets_ok_app_l in Ho. exact Ho. }
  pose proof (leaf_canon k v0 cc Hk Hocc Hdec) as Hlenc.
  pose proof (lenoct_strict_is_written Der (len cc) lw ltac:(discriminate) Hlo) as Hlw.
  split; [rewrite Hs1; reflexivity|]. split; [reflexivity|].
  exists (EPrim t cc), (tag_write false t ++ lw ++ cc).
  split; [cbn [enc2]; rewrite Hlenc; reflexivity|].
  split; [cbn [enc_write]; unfold tlv_write; rewrite Hlw; reflexivity|].
  split; [rewrite Hrem, Hr2, <- !app_assoc; reflexivity|].
  unfold consumed. rewrite Hs1. cbn [lim]. rewrite lim_sub_sub, !len_app.
  split; [f_equal; lia|].
  destruct (lim src) as [x|]; cbn [lim_ge lim_sub] in *; [lia|trivial].
Qed.

Lemma SD2_seq t fs : Forall (fun bf => SD2 (snd bf)) fs -> SD2 (S2Seq t fs).
Proof.
  intros HF fuel c src o c1 s1 Hok Hk Hn Ho Hm H1. pose proof (SDL2_of_Forall fs HF) as HL.
  destruct fuel as [|f]; [discriminate|]. cbn [dec2] in H1.
  apply ok2_seq in Hok as ([Hleg Heov] & Hdi & Hoks). apply kinds_ok2_seq in Hk.
  destruct o as [v0|].
  2:{ destruct (pnv_none_if c t _ src c1 s1 Hn Heov H1) as [-> ->]. auto. }
  unfold cons_closure in H1.
  destruct (pnv_inv_if c t _ src v0 c1 s1 Hn Ho H1) as (k & lw & lv & r2 & Hrem & Hspec & Hlg & Ht).
  set (a := len (tag_write k t) + len lw) in *.
  assert (Hok2 : octets_ok r2 = true).
  { rewrite Hrem in Ho. apply octets_ok_app_r in Ho. apply octets_ok_app_r in Ho. exact Ho. }
  unfold pnv_tail in Ht. rewrite Heov in Ht.
  destruct lv as [n|].
  2:{ rewrite Hm in Ht. cbn [mode_eqb] in Ht. rewrite orb_true_r in Ht. discriminate. }
  apply bind_ok_inv in Ht as (old & s1' & H1' & Ht). unfold get_lim in H1'. injection H1' as <- <-. cbn [lim] in Ht.
  set (l2 := lim_sub (lim src) a) in *.
  apply bind_ok_inv in Ht as ([] & s2 & H2 & Ht). apply lim_check_inv in H2 as [-> Hl2].
  apply bind_ok_inv in Ht as ([] & s3 & H3 & Ht). unfold set_limit in H3. cbn [rem flt] in H3. injection H3 as <-.
  apply bind_ok_inv in Ht as ([] & s3' & H3 & Ht).
  assert (Hcer : s3' = mkSrc r2 (Some n) None).
  { destruct (k && mode_eqb (cmd c) Cer); [discriminate|]. injection H3 as <-. reflexivity. }
  subst s3'. cbv zeta in Ht.
  apply bind_ok_inv in Ht as ([r ct'] & s4 & H4 & Ht).
  apply bind_ok_inv in Ht as ([] & s5 & H5 & Ht).
  apply bind_ok_inv in Ht as ([] & s6 & H6 & Ht). injection Ht as <- <- <-.
  unfold set_limit in H6. injection H6 as <-.
  assert (Hlen : lenoct (cmd c) n lw) by (intro r'; eapply length_spec_indep; eauto).
  destruct k; [|discriminate].
  apply bind_ok_inv in H4 as ([vs c''] & s4' & H4 & H4'). injection H4' as <- <- <-.
  destruct (HL f (mkCons Definite (cmd c)) (mkSrc r2 (Some n) None) vs c'' s4' Hoks Hk (eq_refl : nf (mkSrc r2 (Some n) None)) Hok2 Hm H4)
    as (Hn4 & -> & es & ds & Hes & Hws & Hr2 & [Hc1 Hc2]).
  cbn [rem lim] in Hr2, Hc1, Hc2.
  cbn [content_exhausted cons_exhausted cst] in H5.
  assert (Hnn : n = len ds).
  { unfold src_exhausted in H5. rewrite Hc1 in H5. cbn [lim_sub lim_ge] in *.
    destruct (n - len ds) eqn:E; [lia|discriminate]. }
  apply (src_exhausted_ok_state _ _ Hn4) in H5. subst s5.
  rewrite Hm in Hlen.
  pose proof (lenoct_strict_is_written Der n lw ltac:(discriminate) Hlen) as Hlw.
  split; [exact Hn4|]. split; [reflexivity|].
  exists (ECons t (ESeq es)), (tag_write true t ++ lw ++ ds).
  split; [rewrite enc2_seq, Hes; reflexivity|].
  split.
  { remember (ESeq es) as be eqn:Ebe. cbn [enc_write]. subst be.
    rewrite enc_len_is_written, Hws. cbn [res_map res_bind]. rewrite <- Hnn, Hlw. cbn [res_bind res_map]. reflexivity. }
  cbn [rem lim].
  split; [rewrite Hrem, Hr2, <- !app_assoc; reflexivity|].
  unfold consumed. cbn [lim]. unfold l2. rewrite lim_sub_sub, !len_app. unfold a.
  split; [f_equal; lia|]. unfold l2, a in *.
  destruct (lim src) as [x|]; cbn [lim_ge lim_sub] in *; [lia|trivial].
Qed.

Theorem schema2_sound s : SD2 s.
Proof. induction s using schema2_ind'; [apply SD2_leaf|apply SD2_seq; assumption]. Qed.

(* whole input: the consumed octets are the DER encoding of the value *)
Theorem schema2_der_canonical s v d s1 : ok2 s -> kinds_ok2 s -> octets_ok d = true ->
  decode_src Der (fun c => mandatory (dec2 (depth2 s) s c)) (pure_src d None) = (Ok v, s1) ->
  exists e d0, enc2 s v = Some e /\ enc_write Der e = Ok d0 /\ d = d0 ++ rem s1.
Proof.
  intros Hok Hk Ho H. unfold decode_src in H.
  apply bind_ok_inv in H as ([v0 c1] & s0 & E & H).
  unfold mandatory in E. apply bind_ok_inv in E as ([ov c1'] & s0' & E & E').
  destruct ov as [v1|]; [|discriminate]. injection E' as <- <- <-.
  destruct (schema2_sound s (depth2 s) (mkCons Unbounded Der) (pure_src d None) (Some v1) c1' s0' Hok Hk
              (eq_refl : nf (pure_src d None)) Ho eq_refl E)
    as (Hn1 & -> & e & d0 & He & Hw & Hrem & Hc).
  cbn [rem pure_src] in Hrem. cbn [cons_exhausted cst] in H.
  unfold bind, ret in H. injection H as <- <-. eauto.
Qed.

Corollary schema2_der_injective s v d1 d2 : ok2 s -> kinds_ok2 s ->
  octets_ok d1 = true -> octets_ok d2 = true ->
  decode_src Der (fun c => mandatory (dec2 (depth2 s) s c)) (pure_src d1 None) = (Ok v, pure_src [] None) ->
  decode_src Der (fun c => mandatory (dec2 (depth2 s) s c)) (pure_src d2 None) = (Ok v, pure_src [] None) ->
  d1 = d2.
Proof.
  intros Hok Hk Ho1 Ho2 H1 H2.
  destruct (schema2_der_canonical s v d1 _ Hok Hk Ho1 H1) as (e1 & a1 & He1 & Hw1 & ->).
  destruct (schema2_der_canonical s v d2 _ Hok Hk Ho2 H2) as (e2 & a2 & He2 & Hw2 & ->).
  rewrite He1 in He2. injection He2 as <-. rewrite Hw1 in Hw2. injection Hw2 as <-. reflexivity.
Qed.

Corollary schema2_der_reencode s v d s1 : ok2 s -> kinds_ok2 s -> octets_ok d = true ->
  decode_src Der (fun c => mandatory (dec2 (depth2 s) s c)) (pure_src d None) = (Ok v, s1) ->
  exists e d0, enc2 s v = Some e /\ enc_write Der e = Ok d0 /\ d = d0 ++ rem s1 /\
    decode_src Der (fun c => mandatory (dec2 (depth2 s) s c)) (pure_src d0 None) = (Ok v, pure_src [] None).
Proof.
  intros Hok Hk Ho H. destruct (schema2_der_canonical s v d s1 Hok Hk Ho H) as (e & d0 & He & Hw & Hd).
  exists e, d0. repeat split; try assumption.
  apply (schema2_roundtrip_top s v e Der Der d0 Hok He Hw); [|left; reflexivity].
  rewrite Hd in Ho. apply octets_ok_app_l in Ho. exact Ho.
Qed.
