(* Capture versus the grammar (property C11): capture_one captures exactly
   one well-formed encoding; capture_all captures exactly the encodings of the
   remaining values of a definite-length or top-level value; decoding the
   captured octets later gives the values decoding in place would give. *)
From Coq Require Import Lia ZifyBool ZifyN ZifyNat.
Require Import BV.Model.Base BV.Model.SrcB BV.Model.Length BV.Model.Tag BV.Model.Content.
Require Import BV.Proofs.Bits BV.Proofs.SrcBP BV.Proofs.LengthP BV.Proofs.TagP BV.Proofs.ContentP
               BV.Proofs.WinP BV.Proofs.TotalP BV.Proofs.DeltaP BV.Proofs.GrammarP BV.Proofs.SkipP.
Arguments N.add : simpl never. Arguments N.sub : simpl never.
Arguments N.ltb : simpl never. Arguments N.leb : simpl never. Arguments N.eqb : simpl never.

Lemma capture_inv {T} (c : cons) (op : cons -> M (T * cons)) s b r c' s' :
  capture c op s = (Ok (b, r, c'), s') ->
  exists c1 s1, op c s = (Ok (r, c1), s1) /\ c' = with_state c (cst c1) /\
                b = firstN (len (rem s) - len (rem s1)) (rem s) /\ rem s' = rem s1 /\
                lim s' = lim_sub (lim s) (len (rem s) - len (rem s1)) /\ flt s' = flt s1.
Proof.
  unfold capture. intro H. unfold bind at 1 in H. unfold get at 1 in H. cbv beta iota in H.
  apply bind_ok_inv in H as ([r0 c1] & s1 & H1 & H). unfold bind at 1 in H. unfold get at 1 in H. cbv beta iota in H.
  apply bind_ok_inv in H as ([] & s2 & H2 & H).
  assert (s2 = s1) by (destruct (lim s) as [l|]; [destruct (l <? _); [discriminate|]|]; injection H2 as <-; reflexivity).
  subst s2. unfold bind, put, ret in H. injection H as <- <- <- <-.
  exists c1, s1. repeat split; try reflexivity. exact H1.
Qed.

Lemma firstN_prefix {A} (p r : list A) : firstN (len (p ++ r) - len r) (p ++ r) = p.
Proof. rewrite len_app. replace (len p + len r - len r) with (len p) by lia. apply firstN_app_exact. Qed.

(* capture_one: exactly the encoding of one value *)
Theorem capture_one_exact fuel c s b c' s' :
  nf s -> octets_ok (rem s) = true ->
  capture_one fuel c s = (Ok (b, c'), s') ->
  c' = c /\ exists t, GrammarP.enc (cmd c) t b /\ rem s = b ++ rem s' /\
                      lim s' = lim_sub (lim s) (len b) /\ lim_ge (lim s) (len b).
Proof.
  intros Hn Hok H. unfold capture_one in H. apply bind_ok_inv in H as ([[b0 u] c0] & s0 & H & H').
  injection H' as Eb Ec Es. subst b0 c0 s0.
  destruct (capture_inv _ _ _ _ _ _ _ H) as (c1 & s1 & Hop & Ec' & Eb & Hr & Hl & _).
  apply bind_ok_inv in Hop as ([u0 c2] & s2 & Hm & Hop'). injection Hop' as E1 E2 E3. subst u0 c2 s2.
  unfold mandatory in Hm. apply bind_ok_inv in Hm as ([o c3] & s3 & Hs & Hm).
  apply bind_ok_inv in Hs as ([o' c4] & s4 & Hsk & Hs'). injection Hs' as E1 E2 E3. subst o c3 s3.
  destruct o'; [discriminate|]. injection Hm as Eu Ec4 Es4. subst c4 s4. clear Eu.
  unfold skip_one in Hsk. apply bind_ok_inv in Hsk as ([[o5 c5] tr5] & s5 & Hsk & Hx). injection Hx as E1 E2 E3. subst o5 c5 s5.
  destruct (skipped_is_wellformed fuel c accept_all s c1 tr5 s1 Hn Hok Hsk) as (E & t & d & He & Hrs & [Hc Hg] & _).
  subst c1. split; [subst c'; destruct c; reflexivity|].
  exists t. subst b. rewrite Hrs, firstN_prefix. rewrite Hrs, len_app in Hl.
  replace (len d + len (rem s1) - len (rem s1)) with (len d) in Hl by lia.
  rewrite Hr. auto.
Qed.

(* what was captured decodes later to the very value(s) *)
Theorem captured_value_decodes m t b fuel : GrammarP.enc m t b -> octets_ok b = true -> (length b < fuel)%nat ->
  decode_src m (read_all fuel) (pure_src b None) = (Ok [t], pure_src [] None).
Proof.
  intros He Hok Hf. assert (Hs : encs m [t] b) by (rewrite <- (app_nil_r b); apply Es_cons; [exact He|constructor]).
  apply wellformed_is_accepted; [exact Hs|exact Hok|].
  pose proof (proj2 (enc_size m) _ _ Hs). lia.
Qed.

(* skip_all: the remaining values, up to the end of the enclosing value *)
Lemma skip_all_sound fuel : forall c n s k c' s', nf s -> octets_ok (rem s) = true ->
  skip_all fuel c n s = (Ok (k, c'), s') ->
  nf s' /\ exists ts ds, encs (cmd c) ts ds /\
    match cst c with
    | Indefinite => exists lw0, rem s = ds ++ 0 :: lw0 ++ rem s' /\ lenoct (cmd c) 0 lw0
    | _ => rem s = ds ++ rem s'
    end.
Proof.
  induction fuel as [|f IH]; intros c n s k c' s' Hn Hok H; [discriminate|].
  change (skip_all (S f) c n) with (r <- skip_one (S f) c;; let '(o, c1) := r in
            match o with SkNone => ret (n, c1) | SkSome => skip_all f c1 (n + 1) end) in H.
  apply bind_ok_inv in H as ([o c1] & s1 & Hs & H).
  unfold skip_one in Hs. apply bind_ok_inv in Hs as ([[o5 c5] tr5] & s5 & Hsk & Hx). injection Hx as -> -> ->.
  destruct o.
  - injection H as <- <- <-.
    unfold skip_opt in Hsk. apply bind_ok_inv in Hsk as (ex & s0 & H0 & Hsk).
    pose proof (is_exhausted_state _ _ _ _ H0) as ->.
    destruct ex.
    { injection Hsk as <- <- <-. split; [exact Hn|]. exists [], []. split; [constructor|].
      unfold is_exhausted in H0. destruct (cst c); try discriminate; reflexivity. }
    destruct (proj1 (skip_sound (S f)) c accept_all [] [] s SkNone c1 tr5 s1 Hn Hok Hsk) as (Hn' & _ & _ & X).
    split; [exact Hn'|]. exists [], []. split; [constructor|].
    destruct X as [(-> & -> & Hu & He)|(Hi & -> & lw0 & Hr & Hlw & _)].
    + rewrite Hu. reflexivity.
    + rewrite Hi. exists lw0. auto.
  - destruct (skipped_is_wellformed (S f) c accept_all s c1 tr5 s1 Hn Hok Hsk) as (-> & t & d & He & Hrs & _ & _).
    assert (Hn1 : nf s1).
    { unfold skip_opt in Hsk. apply bind_ok_inv in Hsk as (ex & s0 & H0 & Hsk).
      pose proof (is_exhausted_state _ _ _ _ H0) as ->. destruct ex; [discriminate|].
      apply (proj1 (skip_sound (S f)) c accept_all [] [] s SkSome c tr5 s1 Hn Hok Hsk). }
    assert (Hok1 : octets_ok (rem s1) = true) by (rewrite Hrs in Hok; apply octets_ok_app_r in Hok; exact Hok).
    destruct (IH c (n + 1) s1 k c' s' Hn1 Hok1 H) as (Hn' & ts & ds & Hds & Hctx).
    split; [exact Hn'|]. exists (t :: ts), (d ++ ds). split; [constructor; assumption|].
    destruct (cst c).
    + rewrite Hrs, Hctx, app_assoc. reflexivity.
    + destruct Hctx as (lw0 & Hr & Hlw). exists lw0. rewrite Hrs, Hr, app_assoc. auto.
    + rewrite Hrs, Hctx, app_assoc. reflexivity.
    + rewrite Hrs, Hctx, app_assoc. reflexivity.
Qed.

(* capture_all in a definite-length or top-level value: exactly the encodings
   of the remaining values; inside an indefinite-length value the enclosing
   end-of-contents is consumed and captured with them (known finding D18) *)
Theorem capture_all_exact fuel c s b c' s' :
  nf s -> octets_ok (rem s) = true ->
  capture_all fuel c s = (Ok (b, c'), s') ->
  exists ts ds, encs (cmd c) ts ds /\ rem s = b ++ rem s' /\
    match cst c with
    | Indefinite => exists lw0, b = ds ++ 0 :: lw0 /\ lenoct (cmd c) 0 lw0
    | _ => b = ds
    end.
Proof.
  intros Hn Hok H. unfold capture_all in H. apply bind_ok_inv in H as ([[b0 u] c0] & s0 & H & H').
  injection H' as <- <- <-.
  destruct (capture_inv _ _ _ _ _ _ _ H) as (c1 & s1 & Hop & -> & -> & Hr & _).
  destruct (skip_all_sound fuel c 0 s u c1 s1 Hn Hok Hop) as (_ & ts & ds & Hds & Hctx).
  exists ts, ds. split; [exact Hds|]. rewrite Hr.
  destruct (cst c).
  - rewrite Hctx, firstN_prefix. auto.
  - destruct Hctx as (lw0 & Hrs & Hlw).
    replace (ds ++ 0 :: lw0 ++ rem s1) with ((ds ++ 0 :: lw0) ++ rem s1) in Hrs by (rewrite <- app_assoc; reflexivity).
    rewrite Hrs, firstN_prefix. split; [reflexivity|]. exists lw0. auto.
  - rewrite Hctx, firstN_prefix. auto.
  - rewrite Hctx, firstN_prefix. auto.
Qed.

(* ---- Captured::decode_partial: successive partial decodes partition the captured data ---- *)
Definition one_value (fuel : nat) (c : cons) : M (tlv * cons) := mandatory (process_next_value c None (rd fuel)).

Theorem decode_partial_one m t d rest fuel : GrammarP.enc m t d -> octets_ok (d ++ rest) = true ->
  (size t <= fuel)%nat -> decode_partial m (one_value fuel) (d ++ rest) = Ok (t, rest).
Proof.
  intros He Hok Hf. unfold decode_partial, decode_src, one_value, mandatory.
  pose proof (proj1 (grammar_complete m) t d He fuel (mkCons Unbounded m) rest None Hf eq_refl Hok I I) as H.
  unfold pure_src. unfold bind at 1. unfold bind at 1. rewrite H. reflexivity.
Qed.

(* a partial decode that succeeds removes exactly one well-formed value from the front *)
Theorem decode_partial_sound m fuel bytes t r : octets_ok bytes = true ->
  decode_partial m (one_value fuel) bytes = Ok (t, r) ->
  exists d, GrammarP.enc m t d /\ bytes = d ++ r.
Proof.
  intros Hok H. unfold decode_partial, decode_src, one_value in H.
  destruct ((rc <- mandatory (process_next_value (mkCons Unbounded m) None (rd fuel));;
             (let '(r0, c) := rc in cons_exhausted c;;; ret r0)) (pure_src bytes None)) as [[v| | | |] s'] eqn:E; try discriminate.
  injection H as -> <-.
  apply bind_ok_inv in E as ([t0 c1] & s1 & E1 & E2).
  unfold mandatory in E1. apply bind_ok_inv in E1 as ([o c2] & s2 & E1 & E1').
  destruct o as [t1|]; [|discriminate]. injection E1' as <- <- <-.
  destruct (value_sound fuel (grammar_sound fuel) (mkCons Unbounded m) (pure_src bytes None) t1 c2 s2 eq_refl Hok E1)
    as (Hn & -> & d & Hd & Hrem & _).
  cbn [cons_exhausted cst] in E2. unfold bind, ret in E2. injection E2 as <- <-.
  exists d. split; [exact Hd|exact Hrem].
Qed.

(* k values captured, k partial decodes: the values in order, nothing lost, nothing left *)
Theorem decode_partials_partition m ts ds fuel : encs m ts ds -> octets_ok ds = true ->
  (length ds <= fuel)%nat ->
  decode_partials m (one_value fuel) (length ts) ds = Ok (ts, []).
Proof.
  intros He. induction He as [|t ts d ds Ht Hts IH]; intros Hok Hf; [reflexivity|].
  cbn [length decode_partials].
  rewrite (decode_partial_one m t d ds fuel Ht Hok).
  2:{ pose proof (proj1 (enc_size m) t d Ht). rewrite app_length in Hf. lia. }
  rewrite IH; [reflexivity|apply octets_ok_app_r in Hok; exact Hok|rewrite app_length in Hf; lia].
Qed.

Example decode_partials_example :
  decode_partials Der (one_value 10) 2 [2; 1; 5; 48; 3; 1; 1; 255] =
    Ok ([TPrim T_INTEGER [5]; TCons T_SEQUENCE [TPrim T_BOOLEAN [255]]], []) /\
  decode_partial Der (one_value 10) [2; 1; 5; 48; 3; 1; 1; 255] = Ok (TPrim T_INTEGER [5], [48; 3; 1; 1; 255]).
Proof. vm_compute. split; reflexivity. Qed.
