(* Window isolation (property C03): code that runs on the content of a value
   observes exactly the octets of that content and nothing beyond its end.

   A source positioned on a value's content is  W w r f  = the octets  w ++ r
   with limit |w| (w = the content, r = everything that follows, f = fault
   budget).  `Win m` says: whatever follows the window is irrelevant - for any
   two continuations r1 r2 of the same window, m gives the same result, and on
   success it has consumed the same prefix k <= |w| of the window, leaving
   W (skip k w) r1 resp. r2. Read-past-the-end therefore cannot return data
   from following values. Win is closed under bind, so it holds for every
   program built from the primitives, for every caller closure that is Win. *)
From Coq Require Import Lia ZifyBool ZifyN.
Require Import BV.Model.Base BV.Model.SrcB BV.Model.Length BV.Model.Tag BV.Model.Content BV.Model.Prog.
Require Import BV.Proofs.Bits BV.Proofs.SrcBP.
Ltac Zify.zify_post_hook ::= Z.div_mod_to_equations.
Arguments N.add : simpl never. Arguments N.sub : simpl never.
Arguments N.ltb : simpl never. Arguments N.leb : simpl never. Arguments N.eqb : simpl never.
Arguments N.min : simpl never.

Definition W (w r : list N) (f : option N) : src := mkSrc (w ++ r) (Some (len w)) f.

Definition Win {A} (m : M A) : Prop :=
  forall w r1 r2 f,
    match m (W w r1 f) with
    | (Ok a, s1) =>
        exists k f1, k <= len w /\ s1 = W (skipN k w) r1 f1 /\
                     m (W w r2 f) = (Ok a, W (skipN k w) r2 f1)
    | (e, _) => fst (m (W w r2 f)) = e
    end.

(* ---------- list facts ---------- *)
Lemma skipN_0 {A} (l : list A) : skipN 0 l = l. Proof. reflexivity. Qed.
Lemma len_skipN {A} k (l : list A) : len (skipN k l) = len l - k.
Proof. unfold len, skipN. rewrite skipn_length. lia. Qed.
Lemma skipn_skipn' {A} (a b : nat) (l : list A) : skipn b (skipn a l) = skipn (a + b) l.
Proof.
  revert l. induction a as [|a IH]; intro l; [reflexivity|].
  destruct l as [|x l]; [rewrite !skipn_nil; reflexivity|]. cbn [skipn Nat.add]. apply IH.
Qed.
Lemma skipN_skipN {A} a b (l : list A) : skipN b (skipN a l) = skipN (a + b) l.
Proof.
  unfold skipN. rewrite skipn_skipn'. f_equal. lia.
Qed.
Lemma skipN_app_le {A} k (w r : list A) : k <= len w -> skipN k (w ++ r) = skipN k w ++ r.
Proof.
  intro H. unfold skipN, len in *. rewrite skipn_app.
  replace (N.to_nat k - length w)%nat with 0%nat by lia. reflexivity.
Qed.
Lemma firstN_app_le {A} k (w r : list A) : k <= len w -> firstN k (w ++ r) = firstN k w.
Proof.
  intro H. unfold firstN, len in *. rewrite firstn_app.
  replace (N.to_nat k - length w)%nat with 0%nat by lia. cbn. apply app_nil_r.
Qed.
Lemma firstN_len_app {A} (w r : list A) : firstN (len w) (w ++ r) = w.
Proof.
  rewrite firstN_app_le by lia. unfold firstN, len. rewrite Nnat.Nat2N.id. apply firstn_all.
Qed.
Lemma W_id w r f : W (skipN 0 w) r f = W w r f. Proof. reflexivity. Qed.

Lemma visible_W w r f : visible (W w r f) = w.
Proof. rewrite visible_eq. unfold W. cbn [lim rem]. apply firstN_len_app. Qed.
Lemma avail_W w r f : avail (W w r f) = len w.
Proof. unfold avail, W. cbn [lim rem]. rewrite len_app. lia. Qed.

(* ---------- structural lemmas ---------- *)
Lemma Win_ret {A} (a : A) : Win (ret a).
Proof.
  intros w r1 r2 f. cbn. exists 0, f. split; [lia|]. split; reflexivity.
Qed.
Lemma Win_cerr {A} : Win (@cerr A). Proof. intros w r1 r2 f. reflexivity. Qed.
Lemma Win_panic {A} : Win (@panic A). Proof. intros w r1 r2 f. reflexivity. Qed.
Lemma Win_nofuel {A} : Win (@nofuel A). Proof. intros w r1 r2 f. reflexivity. Qed.

Lemma Win_bind {A B} (m : M A) (g : A -> M B) :
  Win m -> (forall a, Win (g a)) -> Win (bind m g).
Proof.
  intros Hm Hg w r1 r2 f. specialize (Hm w r1 r2 f). unfold bind.
  destruct (m (W w r1 f)) as [[a| | | |] s1] eqn:E1.
  - destruct Hm as (k & f1 & Hk & -> & E2). rewrite E2.
    specialize (Hg a (skipN k w) r1 r2 f1).
    destruct (g a (W (skipN k w) r1 f1)) as [[b| | | |] s2] eqn:E3; try exact Hg.
    destruct Hg as (k2 & f2 & Hk2 & -> & E4). rewrite E4.
    rewrite len_skipN in Hk2. exists (k + k2), f2. split; [lia|].
    rewrite !skipN_skipN. split; reflexivity.
  - destruct (m (W w r2 f)) as [[a| | | |] s2]; cbn in Hm; try discriminate; reflexivity.
  - destruct (m (W w r2 f)) as [[a| | | |] s2]; cbn in Hm; try discriminate; reflexivity.
  - destruct (m (W w r2 f)) as [[a| | | |] s2]; cbn in Hm; try discriminate; reflexivity.
  - destruct (m (W w r2 f)) as [[a| | | |] s2]; cbn in Hm; try discriminate; reflexivity.
Qed.

Lemma Win_tick : Win tick.
Proof.
  intros w r1 r2 f. unfold tick, W. cbn [flt rem lim].
  destruct f as [[|p]|].
  - reflexivity.
  - exists 0, (Some (N.pos p - 1)). split; [lia|]. split; reflexivity.
  - exists 0, None. split; [lia|]. split; reflexivity.
Qed.

Lemma Win_get_lim_then {A} (g : option N -> M A) :
  (forall l, Win (g l)) -> Win (bind get_lim g).
Proof.
  intros Hg w r1 r2 f. unfold bind, get_lim. cbn [W lim]. apply (Hg (Some (len w))).
Qed.
Lemma Win_get_visible_then {A} (g : list N -> M A) :
  (forall v, Win (g v)) -> Win (bind get_visible g).
Proof.
  intros Hg w r1 r2 f. unfold bind, get_visible. rewrite !visible_W. apply (Hg w).
Qed.
Lemma Win_get_avail_then {A} (g : N -> M A) :
  (forall v, Win (g v)) -> Win (bind get_avail g).
Proof.
  intros Hg w r1 r2 f. unfold bind, get_avail. rewrite !avail_W. apply (Hg (len w)).
Qed.

(* ---------- primitives ---------- *)
Lemma W_cons b w r f : W (b :: w) r f = mkSrc (b :: w ++ r) (Some (1 + len w)) f.
Proof. unfold W. rewrite len_cons. reflexivity. Qed.

Lemma take1_W b w r f :
  (fun s => match lim s, rem s with
            | Some 0, _ => (@CErr N, s) | _, [] => (CErr, s)
            | l, x :: t => (Ok x, mkSrc t (lim_sub l 1) (flt s)) end) (W (b :: w) r f)
  = (Ok b, W w r f).
Proof.
  rewrite W_cons. cbn [lim rem flt]. destruct (1 + len w) eqn:E; [lia|].
  cbn [lim_sub]. unfold W. do 3 f_equal. lia.
Qed.

Lemma Win_take_u8 : Win take_u8.
Proof.
  unfold take_u8. apply Win_bind; [apply Win_tick|]. intros _ w r1 r2 f.
  destruct w as [|b w].
  - unfold W. cbn. reflexivity.
  - rewrite !take1_W. exists 1, f. split; [rewrite len_cons; lia|]. split; reflexivity.
Qed.

Lemma Win_take_opt_u8 : Win take_opt_u8.
Proof.
  unfold take_opt_u8. apply Win_bind; [apply Win_tick|]. intros _ w r1 r2 f.
  destruct w as [|b w].
  - unfold W. cbn. exists 0, f. split; [lia|]. split; reflexivity.
  - rewrite !W_cons. cbn [lim rem flt]. destruct (1 + len w) eqn:E; [lia|].
    exists 1, f. split; [rewrite len_cons; lia|]. cbn [lim_sub]. unfold W, skipN.
    change (N.to_nat 1) with 1%nat. cbn [skipn].
    split; do 3 f_equal; lia.
Qed.

Lemma Win_need n : Win (need n).
Proof.
  unfold need. apply Win_bind; [apply Win_tick|]. intros _ w r1 r2 f. rewrite !avail_W.
  destruct (len w <? n); [reflexivity|]. exists 0, f. split; [lia|]. split; reflexivity.
Qed.

Lemma Win_advance n : Win (advance n).
Proof.
  intros w r1 r2 f. unfold advance, W. cbn [rem lim flt]. rewrite !len_app.
  destruct (len w <? n) eqn:E.
  - destruct (len w + len r1 <? n), (len w + len r2 <? n); reflexivity.
  - replace (len w + len r1 <? n) with false by lia. replace (len w + len r2 <? n) with false by lia.
    exists n, f. split; [lia|]. rewrite !skipN_app_le by lia. rewrite len_skipN. split; reflexivity.
Qed.

Lemma Win_remaining : Win remaining.
Proof. intros w r1 r2 f. cbn. exists 0, f. split; [lia|]. split; reflexivity. Qed.

Lemma src_exhausted_W w r f :
  src_exhausted (W w r f) = if len w =? 0 then (Ok tt, W w r f) else (CErr, W w r f).
Proof. unfold src_exhausted, W. cbn [lim]. destruct (len w); reflexivity. Qed.
Lemma Win_src_exhausted : Win src_exhausted.
Proof.
  intros w r1 r2 f. rewrite !src_exhausted_W. destruct (len w =? 0); [|reflexivity].
  exists 0, f. split; [lia|]. split; reflexivity.
Qed.

(* explicit behaviour of the whole-content accessors on a window *)
Definition tickf (f : option N) : option N :=
  match f with Some (N.pos p) => Some (N.pos p - 1) | x => x end.
Definition failing (f : option N) : bool := match f with Some 0 => true | _ => false end.

Lemma need_W n w r f :
  need n (W w r f) =
    if failing f then (SErr, W w r f)
    else (if len w <? n then CErr else Ok tt, W w r (tickf f)).
Proof.
  unfold need, bind, tick, W. cbn [flt rem lim].
  destruct f as [[|p]|]; cbn [failing tickf rem lim flt]; [reflexivity| |].
  - change (mkSrc (w ++ r) (Some (len w)) (Some (N.pos p - 1))) with (W w r (Some (N.pos p - 1))).
    rewrite avail_W. destruct (len w <? n); reflexivity.
  - change (mkSrc (w ++ r) (Some (len w)) None) with (W w r None).
    rewrite avail_W. destruct (len w <? n); reflexivity.
Qed.
Lemma advance_all_W w r f : advance (len w) (W w r f) = (Ok tt, W (skipN (len w) w) r f).
Proof.
  unfold advance, W. cbn [rem lim flt]. rewrite len_app.
  replace (len w + len r <? len w) with false by lia. replace (len w <? len w) with false by lia.
  rewrite skipN_app_le by lia. rewrite len_skipN. reflexivity.
Qed.
Lemma slice_all_W w r f :
  slice_all_lim (W w r f) = if failing f then (SErr, W w r f) else (Ok w, W w r (tickf f)).
Proof.
  unfold slice_all_lim. cbn [W lim]. unfold bind at 1. rewrite need_W.
  destruct (failing f); [reflexivity|]. replace (len w <? len w) with false by lia.
  unfold bind, get, ret. cbn [W rem]. rewrite firstN_len_app. reflexivity.
Qed.
Lemma take_all_W w r f :
  take_all_lim (W w r f) =
    if failing f then (SErr, W w r f) else (Ok w, W (skipN (len w) w) r (tickf f)).
Proof.
  unfold take_all_lim. cbn [W lim]. unfold bind at 1. rewrite need_W.
  destruct (failing f); [reflexivity|]. replace (len w <? len w) with false by lia.
  unfold bind at 1. unfold get. unfold bind at 1. rewrite advance_all_W.
  unfold ret. cbn [W rem]. rewrite firstN_len_app. reflexivity.
Qed.
Lemma skip_all_W w r f :
  skip_all_lim (W w r f) =
    if failing f then (SErr, W w r f) else (Ok tt, W (skipN (len w) w) r (tickf f)).
Proof.
  unfold skip_all_lim. cbn [W lim]. unfold bind at 1. rewrite need_W.
  destruct (failing f); [reflexivity|]. replace (len w <? len w) with false by lia.
  apply advance_all_W.
Qed.

Lemma Win_skip_all : Win skip_all_lim.
Proof.
  intros w r1 r2 f. rewrite !skip_all_W. destruct (failing f); [reflexivity|].
  exists (len w), (tickf f). split; [lia|]. split; reflexivity.
Qed.
Lemma Win_slice_all : Win slice_all_lim.
Proof.
  intros w r1 r2 f. rewrite !slice_all_W. destruct (failing f); [reflexivity|].
  exists 0, (tickf f). split; [lia|]. split; reflexivity.
Qed.
Lemma Win_take_all : Win take_all_lim.
Proof.
  intros w r1 r2 f. rewrite !take_all_W. destruct (failing f); [reflexivity|].
  exists (len w), (tickf f). split; [lia|]. split; reflexivity.
Qed.

Lemma Win_with_slice_all {T} (op : list N -> res T) : Win (with_slice_all op).
Proof.
  unfold with_slice_all. apply Win_bind; [apply Win_slice_all|]. intro c.
  destruct (op c).
  - apply Win_bind; [apply Win_advance|]. intro. apply Win_ret.
  - apply Win_cerr.
  - intros w r1 r2 f. reflexivity.
  - apply Win_panic.
  - apply Win_nofuel.
Qed.

(* ---------- content errors that leave the window state unchanged ---------- *)
Definition WinE {A} (m : M A) : Prop :=
  Win m /\
  forall w r1 r2 f s1, m (W w r1 f) = (CErr, s1) ->
    exists f1, s1 = W w r1 f1 /\ m (W w r2 f) = (CErr, W w r2 f1).

Lemma WinE_take_u8 : WinE take_u8.
Proof.
  split; [apply Win_take_u8|]. intros w r1 r2 f s1. unfold take_u8, bind, tick, W. cbn [flt].
  destruct f as [[|p]|]; cbn [rem lim flt]; try discriminate.
  - destruct w as [|b w].
    + cbn [app len length N.of_nat]. intros [= <-]. exists (Some (N.pos p - 1)). split; reflexivity.
    + cbn [app]. rewrite len_cons. destruct (1 + len w) eqn:E; [lia|]. discriminate.
  - destruct w as [|b w].
    + cbn [app len length N.of_nat]. intros [= <-]. exists None. split; reflexivity.
    + cbn [app]. rewrite len_cons. destruct (1 + len w) eqn:E; [lia|]. discriminate.
Qed.

Lemma no_cerr_take_all w r f s1 : take_all_lim (W w r f) <> (CErr, s1).
Proof. rewrite take_all_W. destruct (failing f); discriminate. Qed.
Lemma no_cerr_skip_all w r f s1 : skip_all_lim (W w r f) <> (CErr, s1).
Proof. rewrite skip_all_W. destruct (failing f); discriminate. Qed.
Lemma no_cerr_slice_all w r f s1 : slice_all_lim (W w r f) <> (CErr, s1).
Proof. rewrite slice_all_W. destruct (failing f); discriminate. Qed.

Lemma WinE_of_no_cerr {A} (m : M A) : Win m -> (forall w r f s1, m (W w r f) <> (CErr, s1)) -> WinE m.
Proof. intros Hw Hn. split; [exact Hw|]. intros w r1 r2 f s1 H. exfalso. eapply Hn. exact H. Qed.

Lemma WinE_take_all : WinE take_all_lim.
Proof. apply WinE_of_no_cerr; [apply Win_take_all|apply no_cerr_take_all]. Qed.
Lemma WinE_skip_all : WinE skip_all_lim.
Proof. apply WinE_of_no_cerr; [apply Win_skip_all|apply no_cerr_skip_all]. Qed.
Lemma WinE_slice_all : WinE slice_all_lim.
Proof. apply WinE_of_no_cerr; [apply Win_slice_all|apply no_cerr_slice_all]. Qed.
Lemma WinE_with_slice_all_id : WinE (with_slice_all (fun c => Ok c)).
Proof.
  apply WinE_of_no_cerr; [apply Win_with_slice_all|].
  intros w r f s1. unfold with_slice_all, bind.
  destruct (slice_all_lim (W w r f)) as [[c| | | |] s2] eqn:E; try discriminate.
  - destruct (advance (len c) s2) as [[[]| | | |] s3] eqn:E2; try discriminate.
    (* advance never yields a content error *)
    unfold advance in E2. destruct (len (rem s2) <? len c); [discriminate|].
    destruct (lim s2) as [l|]; [destruct (l <? len c)|]; discriminate.
  - exfalso. eapply no_cerr_slice_all. exact E.
Qed.

(* ---------- the Source operations of a script (C03) ---------- *)
Lemma Win_catch_cerr {A} (m : M A) dflt onerr onok : WinE m -> Win (catch_cerr m dflt onerr onok).
Proof.
  intros [Hm He] w r1 r2 f. specialize (Hm w r1 r2 f). unfold catch_cerr.
  destruct (m (W w r1 f)) as [[a| | | |] s1] eqn:E1.
  - destruct Hm as (k & f1 & Hk & -> & E2). rewrite E2. exists k, f1. split; [exact Hk|]. split; reflexivity.
  - destruct (He w r1 r2 f s1 E1) as (f1 & -> & E2). rewrite E2.
    exists 0, f1. split; [lia|]. split; reflexivity.
  - destruct (m (W w r2 f)) as [[a| | | |] s2]; cbn in Hm; try discriminate; reflexivity.
  - destruct (m (W w r2 f)) as [[a| | | |] s2]; cbn in Hm; try discriminate; reflexivity.
  - destruct (m (W w r2 f)) as [[a| | | |] s2]; cbn in Hm; try discriminate; reflexivity.
Qed.

Lemma Win_run_sop o g : Win (run_sop o g).
Proof.
  destruct o; unfold run_sop.
  - apply Win_bind; [apply Win_tick|]. intros _. apply Win_get_avail_then. intro. apply Win_ret.
  - apply Win_get_visible_then. intro. apply Win_ret.
  - apply Win_get_visible_then. intro. apply Win_ret.
  - apply Win_bind; [apply Win_advance|]. intro. apply Win_ret.
  - apply Win_bind; [apply Win_tick|]. intros _. apply Win_get_avail_then. intro.
    apply Win_bind; [apply Win_advance|]. intro. apply Win_ret.
  - apply Win_bind; [apply Win_catch_cerr; apply WinE_take_u8|]. intro. apply Win_ret.
  - apply Win_bind; [apply Win_take_opt_u8|]. intro. apply Win_ret.
  - apply Win_bind; [apply Win_catch_cerr; apply WinE_take_all|]. intro. apply Win_ret.
  - apply Win_bind; [apply Win_catch_cerr; apply WinE_skip_all|]. intro. apply Win_ret.
  - apply Win_bind; [apply Win_catch_cerr; apply WinE_slice_all|]. intro. apply Win_ret.
  - apply Win_bind; [apply Win_catch_cerr; apply WinE_with_slice_all_id|]. intro. apply Win_ret.
  - apply Win_bind; [apply Win_remaining|]. intro. apply Win_ret.
Qed.

(* C03, main theorem: every finite sequence of Source operations on the
   content of a value observes exactly that content, whatever follows it. *)
Theorem Win_run_script sc g lg : Win (run_script sc g lg).
Proof.
  revert g lg. induction sc as [|o sc IH]; intros g lg; cbn [run_script].
  - apply Win_ret.
  - apply Win_bind; [apply Win_run_sop|]. intros [g' l]. apply IH.
Qed.

(* The observations (the log) of a script therefore do not depend on what
   follows the value, and reading past the end of the content yields the
   logged error codes, never octets of following values. *)
Corollary script_observes_only_window sc w r1 r2 f :
  fst (run_script sc 0 [] (W w r1 f)) = fst (run_script sc 0 [] (W w r2 f)).
Proof.
  pose proof (Win_run_script sc 0 [] w r1 r2 f) as H.
  destruct (run_script sc 0 [] (W w r1 f)) as [[a| | | |] s1].
  - destruct H as (k & f1 & _ & _ & ->). reflexivity.
  - cbn. symmetry. exact H.
  - cbn. symmetry. exact H.
  - cbn. symmetry. exact H.
  - cbn. symmetry. exact H.
Qed.

(* ====================================================================== *)
(* Header processing is window-isolated too: sibling independence          *)
(* ====================================================================== *)
Definition WinAt {A} (m : M A) (w r1 r2 : list N) (f : option N) : Prop :=
  match m (W w r1 f) with
  | (Ok a, s1) =>
      exists k f1, k <= len w /\ s1 = W (skipN k w) r1 f1 /\
                   m (W w r2 f) = (Ok a, W (skipN k w) r2 f1)
  | (e, _) => fst (m (W w r2 f)) = e
  end.
Lemma Win_at {A} (m : M A) : Win m <-> forall w r1 r2 f, WinAt m w r1 r2 f.
Proof. reflexivity. Qed.

Lemma WinAt_bind {A B} (m : M A) (g : A -> M B) w r1 r2 f :
  WinAt m w r1 r2 f ->
  (forall a k f1, k <= len w -> WinAt (g a) (skipN k w) r1 r2 f1) ->
  WinAt (bind m g) w r1 r2 f.
Proof.
  intros Hm Hg. unfold WinAt in *. unfold bind.
  destruct (m (W w r1 f)) as [[a| | | |] s1] eqn:E1.
  - destruct Hm as (k & f1 & Hk & -> & E2). rewrite E2.
    specialize (Hg a k f1 Hk). 
    destruct (g a (W (skipN k w) r1 f1)) as [[b| | | |] s2] eqn:E3; try exact Hg.
    destruct Hg as (k2 & f2 & Hk2 & -> & E4). rewrite E4.
    rewrite len_skipN in Hk2. exists (k + k2), f2. split; [lia|].
    rewrite !skipN_skipN. split; reflexivity.
  - destruct (m (W w r2 f)) as [[a| | | |] s2]; cbn in Hm; try discriminate; reflexivity.
  - destruct (m (W w r2 f)) as [[a| | | |] s2]; cbn in Hm; try discriminate; reflexivity.
  - destruct (m (W w r2 f)) as [[a| | | |] s2]; cbn in Hm; try discriminate; reflexivity.
  - destruct (m (W w r2 f)) as [[a| | | |] s2]; cbn in Hm; try discriminate; reflexivity.
Qed.

Lemma WinAt_get_lim {A} (g : option N -> M A) w r1 r2 f :
  WinAt (g (Some (len w))) w r1 r2 f -> WinAt (bind get_lim g) w r1 r2 f.
Proof. intro H. unfold WinAt, bind, get_lim. cbn [W lim]. exact H. Qed.

(* tag and length readers *)
Lemma Win_if {A} (b : bool) (m1 m2 : M A) : Win m1 -> Win m2 -> Win (if b then m1 else m2).
Proof. destruct b; trivial. Qed.

Lemma Win_tag_take_opt_from : Win tag_take_opt_from.
Proof.
  unfold tag_take_opt_from. apply Win_bind; [apply Win_take_opt_u8|]. intros [b|]; [|apply Win_ret].
  apply Win_if; [|apply Win_ret].
  apply Win_bind; [apply Win_take_u8|]. intro d1. apply Win_if; [apply Win_cerr|].
  apply Win_if; [apply Win_ret|].
  apply Win_bind; [apply Win_take_u8|]. intro d2. apply Win_if; [apply Win_ret|].
  apply Win_bind; [apply Win_take_u8|]. intro d3. apply Win_if; [apply Win_ret|apply Win_cerr].
Qed.
Lemma Win_tag_take_from : Win tag_take_from.
Proof.
  unfold tag_take_from. apply Win_bind; [apply Win_tag_take_opt_from|]. intros [r|]; [apply Win_ret|apply Win_cerr].
Qed.
Lemma Win_length_take_from m : Win (length_take_from m).
Proof.
  unfold length_take_from. apply Win_bind; [apply Win_take_u8|]. intro b.
  apply Win_if; [apply Win_ret|]. apply Win_if; [apply Win_ret|].
  apply Win_if.
  { apply Win_bind; [apply Win_take_u8|]. intro. apply Win_if; [apply Win_ret|apply Win_cerr]. }
  apply Win_if.
  { apply Win_bind; [apply Win_take_u8|]. intro. apply Win_bind; [apply Win_take_u8|]. intro.
    apply Win_if; [apply Win_ret|apply Win_cerr]. }
  apply Win_if.
  { apply Win_bind; [apply Win_take_u8|]. intro. apply Win_bind; [apply Win_take_u8|]. intro.
    apply Win_bind; [apply Win_take_u8|]. intro. apply Win_if; [apply Win_ret|apply Win_cerr]. }
  apply Win_if; [|apply Win_cerr].
  apply Win_bind; [apply Win_take_u8|]. intro. apply Win_bind; [apply Win_take_u8|]. intro.
  apply Win_bind; [apply Win_take_u8|]. intro. apply Win_bind; [apply Win_take_u8|]. intro.
  apply Win_if; [apply Win_ret|apply Win_cerr].
Qed.

Lemma Win_tag_peek b v : Win (tag_peek b v).
Proof.
  unfold tag_peek. apply Win_if; [|apply Win_ret].
  apply Win_bind; [apply Win_tick|]. intros _. destruct v as [|d1 v2]; [apply Win_cerr|].
  apply Win_if; [apply Win_ret|].
  apply Win_bind; [apply Win_tick|]. intros _. destruct v2 as [|d2 v3]; [apply Win_cerr|].
  apply Win_if; [apply Win_ret|].
  apply Win_bind; [apply Win_tick|]. intros _. destruct v3 as [|d3 v4]; [apply Win_cerr|].
  apply Win_if; [apply Win_ret|apply Win_cerr].
Qed.
Lemma Win_tag_take_from_if e : Win (tag_take_from_if e).
Proof.
  unfold tag_take_from_if. apply Win_bind; [apply Win_tick|]. intros _.
  apply Win_get_visible_then. intros [|b v1]; [apply Win_ret|].
  apply Win_bind; [apply Win_tag_peek|]. intro t. apply Win_if; [|apply Win_ret].
  apply Win_bind; [apply Win_advance|]. intro. apply Win_ret.
Qed.

Lemma Win_is_exhausted c : Win (is_exhausted c).
Proof.
  unfold is_exhausted. destruct (cst c); try apply Win_ret.
  apply Win_get_lim_then. intros [l|]; [apply Win_ret|apply Win_panic].
Qed.
Lemma Win_cons_exhausted c : Win (cons_exhausted c).
Proof.
  unfold cons_exhausted. destruct (cst c); try apply Win_ret; [apply Win_src_exhausted|].
  apply Win_bind; [apply Win_tag_take_from|]. intros [t k]. apply Win_if; [apply Win_cerr|].
  apply Win_bind; [apply Win_length_take_from|]. intro. apply Win_if; [apply Win_ret|apply Win_cerr].
Qed.
Lemma Win_content_exhausted ct : Win (content_exhausted ct).
Proof. destruct ct; [apply Win_src_exhausted|apply Win_cons_exhausted]. Qed.

(* caller closures that are handed a definite-length content hand one back
   (they cannot turn it into anything else through the public API) *)
Definition definite_like (ct : content) : Prop :=
  match ct with CPrim _ => True | CCons c => cst c = Definite end.
Definition DefOp {T} (op : tag -> content -> M (T * content)) : Prop :=
  forall t ct s r ct' s', definite_like ct -> op t ct s = (Ok (r, ct'), s') -> definite_like ct'.

Lemma firstN_skipN {A} n (l : list A) : firstN n l ++ skipN n l = l.
Proof. apply firstn_skipn. Qed.
Lemma len_firstN_le {A} n (l : list A) : n <= len l -> len (firstN n l) = n.
Proof. intro H. unfold len, firstN in *. rewrite firstn_length. lia. Qed.

(* the definite-length branch: narrow the limit to the value, run the
   closure, require the content to be exhausted, restore the limit *)
Lemma WinAt_definite_block {T} (op : tag -> content -> M (T * content)) t ct (c : cons) n w r1 r2 f (g : M unit) :
  DefOp op -> (forall t ct, Win (op t ct)) -> Win g -> definite_like ct -> n <= len w ->
  WinAt (set_limit (Some n) ;;; g ;;;
         rc <- op t ct ;; let '(r, ct') := rc in
         content_exhausted ct' ;;; set_limit (lim_sub (Some (len w)) n) ;;; ret (Some r, c))
        w r1 r2 f.
Proof.
  intros Hd Hop Hg Hdl Hn. unfold WinAt.
  set (w1 := firstN n w). set (q := skipN n w).
  assert (Sw : forall r, set_limit (Some n) (W w r f) = (Ok tt, W w1 (q ++ r) f)).
  { intro r. unfold set_limit, W. cbn [rem lim flt]. subst w1 q.
    rewrite (len_firstN_le n w Hn). rewrite app_assoc, firstN_skipN. reflexivity. }
  set (inner := g ;;; rc <- op t ct ;; let '(r, ct') := rc in
                content_exhausted ct' ;;; ret (r, ct')).
  assert (Hin : Win inner).
  { subst inner. apply Win_bind; [exact Hg|]. intros _. apply Win_bind; [apply Hop|].
    intros [r ct']. apply Win_bind; [apply Win_content_exhausted|]. intro. apply Win_ret. }
  (* relate the block to `inner` *)
  assert (Blk : forall r,
    (set_limit (Some n) ;;; g ;;; rc <- op t ct ;; let '(r, ct') := rc in
       content_exhausted ct' ;;; set_limit (lim_sub (Some (len w)) n) ;;; ret (Some r, c)) (W w r f)
    = match inner (W w1 (q ++ r) f) with
      | (Ok (r0, _), s2) => (Ok (Some r0, c), mkSrc (rem s2) (Some (len w - n)) (flt s2))
      | (CErr, s2) => (CErr, s2) | (SErr, s2) => (SErr, s2)
      | (Panic, s2) => (Panic, s2) | (NoFuel, s2) => (NoFuel, s2) end).
  { intro r. unfold bind at 1. rewrite Sw. subst inner. unfold bind.
    destruct (g (W w1 (q ++ r) f)) as [[[]| | | |] s3]; try reflexivity.
    destruct (op t ct s3) as [[[r0 ct']| | | |] s4]; try reflexivity.
    destruct (content_exhausted ct' s4) as [[[]| | | |] s5]; reflexivity. }
  rewrite !Blk.
  pose proof (Hin w1 (q ++ r1) (q ++ r2) f) as Hw.
  destruct (inner (W w1 (q ++ r1) f)) as [[[r0 ct']| | | |] s2] eqn:E1.
  - destruct Hw as (k & f1 & Hk & -> & E2). rewrite E2. cbn [W rem flt].
    (* the content was exhausted, so the whole value was consumed: k = n *)
    assert (Hk' : k = n).
    { subst inner. unfold bind in E1.
      destruct (g (W w1 (q ++ r1) f)) as [[[]| | | |] s3]; try discriminate.
      destruct (op t ct s3) as [[[r9 ct9]| | | |] s4] eqn:Eop; try discriminate.
      pose proof (Hd t ct s3 r9 ct9 s4 Hdl Eop) as Hdl'.
      destruct (content_exhausted ct9 s4) as [[[]| | | |] s5] eqn:Ex; try discriminate.
      injection E1 as <- <- ->.
      assert (Ex' : src_exhausted s4 = (Ok tt, W (skipN k w1) (q ++ r1) f1)).
      { destruct ct9 as [m9|c9]; [exact Ex|]. cbn in Hdl'. unfold content_exhausted, cons_exhausted in Ex.
        rewrite Hdl' in Ex. exact Ex. }
      unfold src_exhausted in Ex'. destruct (lim s4) as [[|p]|] eqn:El; try discriminate.
      + injection Ex' as ->. unfold W in El. cbn [lim] in El. injection El as El.
        rewrite len_skipN in El. subst w1. rewrite (len_firstN_le n w Hn) in *. lia.
      + exfalso. unfold bind, tick in Ex'.
        destruct (flt s4) as [[|p]|]; try discriminate; cbn [rem lim flt] in Ex';
          destruct (rem s4) eqn:Er; try discriminate; unfold W in Ex'; inversion Ex'; subst; cbn [lim] in *; congruence. }
    subst k. exists n, f1. split; [exact Hn|].
    assert (Z : skipN n w1 = []).
    { subst w1. unfold skipN, firstN. apply skipn_all2. rewrite firstn_length. lia. }
    rewrite Z. cbn [app]. subst q. unfold W. rewrite len_skipN. split; reflexivity.
  - destruct (inner (W w1 (q ++ r2) f)) as [[[? ?]| | | |] ?]; cbn in Hw; try discriminate; reflexivity.
  - destruct (inner (W w1 (q ++ r2) f)) as [[[? ?]| | | |] ?]; cbn in Hw; try discriminate; reflexivity.
  - destruct (inner (W w1 (q ++ r2) f)) as [[[? ?]| | | |] ?]; cbn in Hw; try discriminate; reflexivity.
  - destruct (inner (W w1 (q ++ r2) f)) as [[[? ?]| | | |] ?]; cbn in Hw; try discriminate; reflexivity.
Qed.

Lemma WinAt_of_Win {A} (m : M A) w r1 r2 f : Win m -> WinAt m w r1 r2 f.
Proof. intro H. apply H. Qed.

(* Header processing on a windowed source is window-isolated: the result and
   the octets consumed do not depend on what follows the enclosing value;
   in particular after the closure has run, decoding continues on the
   following siblings exactly as if the value had been read conventionally,
   and a closure that leaves part of a definite-length content unread makes
   the enclosing read fail (src_exhausted). *)
Theorem Win_process_next_value {T} c exp (op : tag -> content -> M (T * content)) :
  DefOp op -> (forall t ct, Win (op t ct)) -> Win (process_next_value c exp op).
Proof.
  intros Hd Hop. apply Win_at. intros w r1 r2 f. unfold process_next_value.
  apply WinAt_bind; [apply WinAt_of_Win, Win_is_exhausted|]. intros ex k0 f0 Hk0.
  destruct ex; [apply WinAt_of_Win, Win_ret|].
  apply WinAt_bind.
  { apply WinAt_of_Win. destruct exp as [e|].
    - apply Win_bind; [apply Win_tag_take_from_if|]. intro. apply Win_ret.
    - apply Win_if; [apply Win_tag_take_opt_from|].
      apply Win_bind; [apply Win_tag_take_from|]. intro. apply Win_ret. }
  intros hdr k1 f1 Hk1. destruct hdr as [[t k]|]; [|apply WinAt_of_Win, Win_ret].
  apply WinAt_bind; [apply WinAt_of_Win, Win_length_take_from|]. intros l k2 f2 Hk2.
  destruct (tag_eqb t END_OF_VALUE).
  { apply WinAt_of_Win. destruct (cst c); try apply Win_cerr.
    apply Win_if; [apply Win_cerr|]. apply Win_if; [apply Win_cerr|apply Win_ret]. }
  destruct l as [n|].
  - apply WinAt_get_lim.
    set (w' := skipN k2 (skipN k1 (skipN k0 w))).
    destruct (len w' <? n) eqn:E.
    + unfold WinAt, bind, cerr. reflexivity.
    + assert (Hn : n <= len w') by lia.
      change (WinAt (set_limit (Some n) ;;;
                     (if k && mode_eqb (cmd c) Cer then cerr else ret tt) ;;;
                     rc <- op t (if k then CCons (mkCons Definite (cmd c)) else CPrim (cmd c)) ;;
                     let '(r, ct') := rc in
                     content_exhausted ct' ;;; set_limit (lim_sub (Some (len w')) n) ;;; ret (Some r, c))
                    w' r1 r2 f2).
      apply WinAt_definite_block; try assumption.
      * apply Win_if; [apply Win_cerr|apply Win_ret].
      * destruct k; cbn; trivial.
  - apply WinAt_of_Win. apply Win_if; [apply Win_cerr|].
    apply Win_bind; [apply Hop|]. intros [r ct']. apply Win_bind; [apply Win_content_exhausted|].
    intro. apply Win_ret.
Qed.

